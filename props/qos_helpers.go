package props

import (
	"bufio"
	"fmt"
	"os"
	"path/filepath"
	"sort"
	"strconv"
	"strings"

	mqtt "github.com/mochi-mqtt/server/v2"
	"github.com/mochi-mqtt/server/v2/packets"
	"github.com/mochi-mqtt/server/v2/zzvrt"

	"verif/explore"
	"verif/ref"
	"verif/world"
)

// Shared E2 scenario of C09, C10, C11, C12: a subscriber "a" with a QoS 2 subscription on
// topic t, a publisher "p", optionally a's own publishes on topic u (subscriber "s").
// The reference model below is written from MQTT 5.0 §4.3 (delivery protocols), §4.4
// (message delivery retry), §4.6 (ordering), §4.9 (flow control) and DESIGN Appendix
// A.3/A.4; it only looks at the operations issued and the packets seen on the wire.
//
// Ops (enabled by the scenario configuration; pools make the space finite):
//   pub:<q>            p publishes the next tagged message m<k> at QoS q to t
//   ack:<id>           a sends PUBACK <id>   (QoS 1 message transmitted on this connection)
//   rec:<id>           a sends PUBREC <id>   (QoS 2 message transmitted on this connection)
//   comp:<id>          a sends PUBCOMP <id>  (PUBREL received on this connection)
//   drop               a's network connection drops
//   rc0 | rc1          a reconnects with clean start 0 | 1 (and re-subscribes if no session is present)
//   to0 | to1          a opens a second connection while the first is live (takeover)
//   rc0:<rm> ...       (arg "rms=<a>.<b>...") the same four ops, the new CONNECT declaring Receive
//                      Maximum <rm> (0: not declared); the first connection declares "rm". The
//                      reference model takes the limit from the CONNECT of the current connection
//                      only (MQTT 3.1.2.11.3: the value applies to the current Network Connection)
//   apub:<q>:<id>      a publishes its own message a<k> at QoS q with client-chosen packet id
//   adup:<id>          a retransmits its QoS 2 PUBLISH <id> with DUP 1 (before PUBREL); adup=1: at any
//                      time (C10), adup=2: only while the PUBLISH packets a sent on the connection for
//                      incomplete exchanges stay below the server's Receive Maximum (C11)
//   arel:<id>          a sends PUBREL <id> for its own QoS 2 publish
//   tick               the clock advances (C12: Created seconds differ / wrap)
//   failnext           (arg "wf=N" pool; needs apubs=0) fault injection: the link of a's current
//                      connection breaks in the broker->client direction: the NEXT write of the
//                      broker to it fails (world.Conn.FailWriteAt) and a sees nothing the broker
//                      writes from now on; a's own packets still reach the broker. At the end of
//                      the step in which the write failed the connection is dropped. Reference
//                      model: a packet a sent and the broker processed (OnPacketProcessed) counts
//                      (PUBREC => Recd: PUBREL, never PUBLISH, after the next CONNACK sp=1); a
//                      message whose PUBLISH was lost by the failed write is still only Queued.
//   apubr:<k>:<q>:<id> a publishes r<n> at QoS q to a topic on which the broker refuses publishes
//                      (refuse=<kinds>: x = write denied by the ACL hook, y = rejected by the publish
//                      hook with reason 0x97, z = $SYS topic name); a publish answered with a
//                      PUBACK/PUBREC >= 0x80 is complete (C11)
//   burst:<q>:<sizes>  p sends one PUBLISH per letter of <sizes> (s = payload is the tag, l = tag
//                      padded beyond the subscriber's write buffer size) in ONE network segment;
//                      the broker runs only after the last one (C12: backlog in a's outbound queue)
//                      With arg "wpend=N" (Capabilities.MaximumClientWritesPending) a burst longer
//                      than N overflows a's outbound queue: the broker reports the surplus messages
//                      as dropped (hook event); the model marks them Dropped ("may be missing") and
//                      judges a later transmission of such a message as its first one
//   !alt:<c0.c1...>    re-executes the PREVIOUS op with the given choices at the map
//                      iteration points of Inflight.GetAll (C12; see qosRun)

type qState int

const (
	qQueued qState = iota
	qSent
	qRecd
	qDone
	qDropped
)

var qStateNames = [...]string{"Queued", "Sent", "Recd", "Done", "Dropped"}

type qMsg struct {
	tag      string
	qos      byte
	st       qState
	pid      uint16
	seq      int
	lastConn int    // connection on which the PUBLISH was last transmitted (0: never)
	relConn  int    // connection on which PUBREL was last received
	connTx   int    // connection during whose establishment the PUBLISH was (re)transmitted
	how      string // first transmission: direct | release | reconnect
	fc       bool   // reference send quota was exhausted when it was published (flow-control deferral expected)
	heldBack bool   // seen Queued at a quiescent point while a was connected
	offline  bool   // published while a was offline
	collided bool   // a's own PUBLISH used this packet id while the message was outstanding
	relColl  bool   // a's own PUBREL (of an inbound QoS 2 exchange) used this packet id while the message was outstanding
	lost     bool   // the broker told us it no longer knows the message
	tick     int    // number of clock advances before it was published
	relFault bool   // a's PUBREC was processed by the broker but the write of the PUBREL failed (injected)
	large    bool   // payload padded to at least the subscriber's write buffer size
	burst    int    // >0: number of the burst (one network segment of the publisher) it was sent in
	relTx    int    // connection during whose establishment the PUBREL was resent
	wfault   bool   // an injected write fault fired on a's connection while the message was queued (its first transmission may be what was lost)
	dropWhy  string // the broker reported the message as dropped for a (hook event): write-queue-full | packet-ids-exhausted
}

type qIn struct {
	tag      string
	crossAck bool // a acknowledged an outbound message with the same id while this exchange was held
	reconn   bool
	tx       int  // cfg.dupcount: PUBLISH packets of this exchange a sent on the current connection
	stuck    bool // the broker never answered the PUBLISH: a has to regard it as unacknowledged
}

type qFinding struct{ Key, Msg string }

type qModel struct {
	cfg        qCfg
	msgs       []*qMsg // current session epoch, publish order
	old        map[string]bool
	conn       int
	connected  bool
	rm         int
	in         map[uint16]*qIn
	fwd        map[string]int // a's own messages: copies at s
	ain        int            // a's own publishes so far
	npub       int
	nconn      int // reconnects / takeovers used
	ticks      int
	report     bool
	trigger    string
	connStep   bool
	stepPubs   map[string]bool
	findings   []qFinding
	cnt        map[string]int
	nondefMap  bool
	everRel    bool
	arelConn   int  // connection on which a last sent a PUBREL of its own
	resendConn int  // last connection whose establishment carried PUBLISH packets
	stepQos0   bool // the current step is a QoS 0 publish of a
	armed      bool // failnext: the next write to a's current connection fails / has failed (link broken)
	nfault     int
	nref       int  // a's publishes to refusing topics so far (pool)
	nrefConn   int  // ... answered with an error acknowledgement on this connection (not part of the key)
	ndupConn   int  // DUP retransmissions on this connection (not part of the key)
	refConn    int  // connection on which a publish of a was last answered with PUBACK/PUBREC >= 0x80
	dupConn    int  // cfg.dupcount: connection on which a last retransmitted an open QoS 2 PUBLISH
	dupAtLimit bool // the current step is a DUP retransmission not covered by the per-packet reading of Receive Maximum
	nburst     int
	rmShrunk   bool // the session was resumed on this connection with a smaller Receive Maximum than the previous connection declared
}

// qTag: the message tag is the payload up to the first '.', the rest is padding.
func qTag(payload string) string {
	if i := strings.IndexByte(payload, '.'); i >= 0 {
		return payload[:i]
	}
	return payload
}

// inCount counts, for the server's Receive Maximum, a's own unacknowledged publishes:
// msgs = incomplete exchanges (the reading of the property: a retransmission is the same
// publish), pks = PUBLISH packets sent on this connection for them (the most conservative
// reading of MQTT-3.3.4-7: a same-connection retransmission is one more packet).
func (q *qModel) inCount() (msgs, pks int) {
	for _, x := range q.in {
		msgs++
		pks += x.tx
	}
	return
}

// redelivered: some message was (re)transmitted, or its PUBREL resent, as part of the
// establishment of the current connection.
func (q *qModel) redelivered() bool { return q.resendConn == q.conn }

func (q *qModel) find(prop, key, f string, a ...any) {
	if !q.report {
		return
	}
	q.findings = append(q.findings, qFinding{prop + ":" + key, fmt.Sprintf(f, a...)})
}

func (q *qModel) count(k string) {
	if q.report {
		q.cnt[k]++
	}
}

func (q *qModel) String() string {
	var b strings.Builder
	for _, m := range q.msgs {
		fmt.Fprintf(&b, "%s/q%d/%s/%d/c%v/r%v/%s/%v%v%v%v%v%v%d ", m.tag, m.qos, qStateNames[m.st], m.pid, m.lastConn == q.conn, m.relConn == q.conn, m.how+fmt.Sprint(m.connTx == q.conn), m.fc, m.heldBack, m.offline, m.collided, m.relColl, m.lost, m.tick)
		if m.relFault {
			b.WriteString("rf ")
		}
		if m.wfault {
			b.WriteString("wq ")
		}
		if m.dropWhy != "" {
			b.WriteString("d:" + m.dropWhy + " ")
		}
		if m.relTx == q.conn && m.relTx != 0 {
			b.WriteString("rt ")
		}
		if m.large || m.burst > 0 {
			fmt.Fprintf(&b, "L%v/b%d ", m.large, m.burst)
		}
	}
	var ins []string
	for id, x := range q.in {
		ins = append(ins, fmt.Sprintf("%d=%s/%v/%v/%d/%v", id, x.tag, x.crossAck, x.reconn, x.tx, x.stuck))
	}
	sort.Strings(ins)
	var fs []string
	for t, n := range q.fwd {
		fs = append(fs, fmt.Sprintf("%s=%d", t, n))
	}
	sort.Strings(fs)
	return fmt.Sprintf("msgs[%s] old%d in%v fwd%v conn=%v rm=%d pools=%d,%d,%d,%d nd=%v ar=%v er=%v rs=%v wf=%d/%v ref=%d,%v,%v nb=%d", b.String(), len(q.old), ins, fs, q.connected, q.rm, q.npub, q.nconn, q.ain, q.ticks, q.nondefMap, q.arelConn == q.conn, q.everRel, q.resendConn == q.conn, q.nfault, q.armed, q.nref, q.refConn == q.conn, q.dupConn == q.conn, q.nburst) + map[bool]string{true: " shrunk"}[q.rmShrunk]
}

func (q *qModel) byTag(tag string) *qMsg {
	for _, m := range q.msgs {
		if m.tag == tag {
			return m
		}
	}
	return nil
}

// outstanding counts PUBLISH packets transmitted on the current connection and not yet
// completed: weak = no PUBACK/PUBREC yet; strict (MQTT-3.3.4-9) = no PUBACK/PUBCOMP yet.
func (q *qModel) outstanding() (weak, strict int) {
	for _, m := range q.msgs {
		if m.lastConn != q.conn {
			continue
		}
		switch m.st {
		case qSent:
			weak++
			strict++
		case qRecd:
			strict++
		}
	}
	return
}

// lostCause names the shape of the history of a message the broker lost.
func (q *qModel) lostCause(m *qMsg) (prop, cause string) {
	switch {
	case m.collided:
		return "c10", "outbound-deleted-by:client-publish-same-id"
	case m.relColl:
		return "c10", "outbound-deleted-by:client-pubrel-same-id"
	case m.how == "release":
		return "c09", "lost:after-deferred-release"
	case m.how == "reconnect" && (m.fc || m.heldBack):
		return "c09", "lost:deferred-then-resent-on-reconnect"
	}
	return "c09", "lost:other"
}

// published registers a message accepted for a's session.
func (q *qModel) published(tag string, qos byte) *qMsg {
	_, strict := q.outstanding()
	queued := 0
	for _, m := range q.msgs {
		if m.st == qQueued && m.qos > 0 {
			queued++
		}
	}
	m := &qMsg{tag: tag, qos: qos, seq: len(q.msgs), offline: !q.connected, tick: q.ticks}
	if q.rm > 0 && strict+queued >= q.rm && qos > 0 {
		m.fc = true
	}
	if qos == 0 && !q.connected {
		m.st = qDropped // at most once: nothing is kept for an offline subscriber
	}
	q.msgs = append(q.msgs, m)
	q.stepPubs[tag] = true
	return m
}

// ordShape names the shape of an order inversion: first was transmitted before late
// although late was published earlier.
func (q *qModel) ordShape(first, late *qMsg) string {
	ord := "default-map-order"
	if q.nondefMap {
		ord = "nondefault-map-order"
	}
	if late.tick != first.tick {
		ord += ":created-seconds-differ"
	} else if q.cfg.maxPID > 0 && first.seq >= q.cfg.maxPID {
		ord += ":after-packet-id-wrap"
	}
	if first.burst > 0 && first.burst == late.burst {
		ord += ":same-segment-burst"
		if first.large && !late.large {
			ord += ":large-overtakes-small"
		}
	}
	return ord
}

// recv feeds the packets a received during the current step to the model.
func (q *qModel) recv(pks []ref.Packet) {
	if q.armed {
		return // the link is broken in the broker->client direction: a sees none of this
	}
	for _, p := range pks {
		switch p.Type {
		case ref.PUBLISH:
			tag := qTag(string(p.Payload))
			if q.old[tag] {
				q.find("c09", "delivered-after-clean-start", "PUBLISH of %s (accepted before the clean start) received: %s", tag, p)
				continue
			}
			m := q.byTag(tag)
			if m == nil || (p.Qos == 0 && m.qos != 0) {
				continue
			}
			if p.Qos == 0 {
				// C12 for QoS 0 (at most once: a message may be missing, but those that arrive
				// arrive in publish order)
				if m.st == qQueued || m.st == qDropped {
					m.st, m.lastConn, m.how = qDone, q.conn, "direct"
					for _, o := range q.msgs {
						if o.seq > m.seq && o.qos == 0 && o.st == qDone && o.lastConn != 0 {
							q.find("c12", "order:qos0:"+q.ordShape(o, m), "%s (published #%d) was transmitted before %s (published #%d), both QoS 0; trigger=%s", o.tag, o.seq, m.tag, m.seq, q.trigger)
						}
					}
					q.count("first_tx_qos0")
				}
				continue
			}
			switch m.st {
			case qQueued, qDropped:
				// qDropped (QoS > 0): the broker reported the message as dropped for a (write queue
				// full, packet ids exhausted) and transmits it all the same: this is its first
				// transmission, judged like any other
				wasDropped := m.st == qDropped
				m.st, m.pid, m.lastConn = qSent, p.PacketID, q.conn
				if q.connStep {
					m.connTx = q.conn
					q.resendConn = q.conn
				}
				switch {
				case q.connStep:
					m.how = "reconnect"
					if m.fc || m.heldBack {
						q.everRel = true
					}
				case q.stepPubs[tag]:
					m.how = "direct"
				default:
					m.how = "release"
					q.everRel = true
					q.count("deferred_releases")
				}
				// C10: identifier range and uniqueness among a's unacknowledged outbound messages
				max := 65535
				if q.cfg.maxPID > 0 {
					max = q.cfg.maxPID
				}
				if p.PacketID == 0 || int(p.PacketID) > max {
					q.find("c10", "outbound-pid-out-of-range", "PUBLISH of %s carries packet id %d (allowed 1..%d)", tag, p.PacketID, max)
				}
				for _, o := range q.msgs {
					if o != m && (o.st == qSent || o.st == qRecd) && !o.lost && o.pid == p.PacketID {
						why := "other"
						switch {
						case o.collided:
							why = "after-client-publish-same-id"
						case o.relColl:
							why = "after-client-pubrel-same-id"
						case o.how == "release" || (o.how == "reconnect" && (o.fc || o.heldBack)):
							why = "after-deferred-release"
						}
						q.find("c10", "outbound-pid-in-use:"+why, "PUBLISH of %s uses packet id %d which the unacknowledged message %s (%s) is using", tag, p.PacketID, o.tag, qStateNames[o.st])
					}
				}
				// C12: first transmissions in publish order (same publisher, topic, QoS)
				for _, o := range q.msgs {
					if o.seq < m.seq && o.qos == m.qos && o.st == qQueued {
						ord := q.ordShape(m, o)
						q.find("c12", "order:"+m.how+":"+ord, "first transmission of %s (published #%d) precedes that of %s (published #%d, still not transmitted); trigger=%s", m.tag, m.seq, o.tag, o.seq, q.trigger)
					}
				}
				if wasDropped {
					// a message may be missing (the broker said so), but when it does arrive, it must
					// not arrive after the first transmission of a message published after it. (While
					// it counted as dropped the loop above, run for the later messages, skipped it.)
					why := m.dropWhy
					if why == "" {
						why = "other"
					}
					q.count("first_tx_after_reported_drop")
					for _, o := range q.msgs {
						if o.seq > m.seq && o.qos == m.qos && o != m && o.how != "" {
							q.find("c12", "order:"+m.how+":"+q.ordShape(o, m)+":late-first-transmission-after-reported-drop:"+why, "%s (published #%d) was reported as dropped for a (%s) and is transmitted for the first time now, after the first transmission of %s (published #%d); trigger=%s", m.tag, m.seq, why, o.tag, o.seq, q.trigger)
							break
						}
					}
				}
				q.count("first_tx_" + m.how)
			case qSent:
				if m.lastConn == q.conn {
					shape := "other"
					if m.how == "reconnect" && (m.fc || m.heldBack) {
						shape = "deferred-then-resent-on-reconnect"
					}
					q.find("c09", "retransmitted-on-same-connection:"+shape, "%s (Sent id %d) transmitted again on the same connection: %s; trigger=%s", tag, m.pid, p, q.trigger)
				} else {
					m.lastConn = q.conn
					if q.connStep {
						m.connTx = q.conn
						q.resendConn = q.conn
					}
					if !p.Dup {
						q.find("c09", "redelivery-without-dup", "redelivery of %s (id %d) has DUP=0: %s", tag, m.pid, p)
					}
					if p.PacketID != m.pid {
						q.find("c09", "redelivery-with-new-packet-id", "redelivery of %s uses id %d, original id %d", tag, p.PacketID, m.pid)
					}
				}
			case qRecd:
				shape := ""
				if m.relFault {
					shape = ":pubrel-write-failed"
				}
				q.find("c09", "publish-resent-after-pubrec"+shape, "%s (PUBREC sent and processed by the broker, id %d) was transmitted as PUBLISH again: %s", tag, m.pid, p)
			case qDone:
				if !m.lost {
					q.find("c09", "resent-after-acknowledgement", "%s was acknowledged (id %d) and is transmitted again: %s; trigger=%s", tag, m.pid, p, q.trigger)
				}
			}
			// C11 (i)
			if q.rm > 0 {
				weak, strict := q.outstanding()
				// resent: messages (re)transmitted while this connection was established. The known
				// defect (quota reset to the full Receive Maximum although they are outstanding) explains
				// up to rm + resent packets in transit, not more
				resent := 0
				for _, o := range q.msgs {
					if o.connTx == q.conn || o.relTx == q.conn {
						resent++
					}
				}
				cause := "other"
				switch {
				case q.connStep:
					cause = "on-reconnect-resend"
				case q.rmShrunk && q.arelConn != q.conn && (weak > q.rm+resent || (weak <= q.rm && strict > q.rm+resent)):
					cause = "after-resumption-with-smaller-receive-maximum"
				case q.redelivered():
					cause = "after-reconnect-resend"
				case q.arelConn == q.conn:
					cause = "after-inbound-pubrel"
				}
				if weak > q.rm {
					q.find("c11", "receive-maximum-exceeded:"+cause, "%d PUBLISH packets without PUBACK/PUBREC on the connection, client Receive Maximum %d (after %s); trigger=%s", weak, q.rm, p, q.trigger)
				} else if strict > q.rm {
					q.find("c11", "receive-maximum-exceeded:counting-qos2-until-pubcomp:"+cause, "%d PUBLISH packets without PUBACK/PUBCOMP on the connection, client Receive Maximum %d (after %s); trigger=%s", strict, q.rm, p, q.trigger)
				}
			}
		case ref.PUBREL:
			var m *qMsg
			for _, o := range q.msgs {
				if o.st == qRecd && o.pid == p.PacketID {
					m = o
				}
			}
			if m != nil {
				m.relConn = q.conn
				if q.connStep {
					// the exchange was resumed as part of the connection's establishment: it is
					// outstanding on this connection like a resent PUBLISH
					m.relTx = q.conn
					q.resendConn = q.conn
				}
				if p.ReasonCode >= 0x80 {
					q.find("c09", "pubrel>=0x80", "PUBREL for %s (id %d) carries reason %#x", m.tag, m.pid, p.ReasonCode)
				}
				continue
			}
			if q.connStep {
				shape := "unknown-id"
				for _, o := range q.msgs {
					if o.st == qDone && o.qos == 2 && o.pid == p.PacketID && !o.lost {
						shape = "after-pubcomp"
					}
				}
				q.find("c09", "pubrel-resent:"+shape, "PUBREL id %d received after reconnect without a message awaiting PUBCOMP", p.PacketID)
			}
		case ref.DISCONNECT:
			if p.ReasonCode == 0x93 {
				held, _ := q.inCount()
				lim := q.cfg.srm
				if lim == 0 {
					lim = 1024
				}
				if held <= lim {
					shape := "other"
					switch {
					case q.dupAtLimit:
						// only reachable with dupcount=0: the retransmission is the same publish (the
						// property counts publishes), but one more PUBLISH packet on this connection
						shape = "on-same-connection-dup-retransmission-at-limit"
					case q.refConn == q.conn:
						shape = "after-refused-publish"
					case q.dupConn == q.conn:
						shape = "after-dup-retransmission"
					}
					for _, o := range q.msgs {
						if o.st == qRecd {
							shape = "while-outbound-qos2-awaits-pubcomp"
						}
					}
					if q.stepQos0 {
						shape = "on-qos0-publish"
					}
					q.find("c11", "disconnect-0x93-within-limit:"+shape, "DISCONNECT 0x93 although a has %d unacknowledged QoS>0 publishes of its own (server Receive Maximum %d); trigger=%s", held, lim, q.trigger)
				}
			} else if p.ReasonCode != 0x8E {
				q.find("any", fmt.Sprintf("unexpected-disconnect:rc=%#x:on-%s", p.ReasonCode, q.trigger), "broker sent DISCONNECT %#x", p.ReasonCode)
			}
		}
	}
}

// ---------------- scenario configuration ----------------

type qCfg struct {
	prop    string
	aVer    byte
	rm      int
	srm     int
	maxPID  int
	pubs    int
	qos     string
	conns   int
	clean   bool
	take    bool
	apubs   int
	aids    int
	abase   int
	aqos    string
	adup    int    // 0: no DUP retransmissions; 1: any time (C10); 2: only while a stays within the server's Receive Maximum also when every PUBLISH packet sent on the connection is counted (C11); 3: while the publishes are within it, at most one packet beyond (not used in the tiers)
	refuse  string // kinds of refusing topics a publishes to: x (ACL), y (publish hook), z ($SYS)
	rpubs   int    // pool of a's publishes to refusing topics
	wbuf    int    // >0: Options.ClientNetWriteBufferSize
	bursts  string // '.'-separated size patterns of the burst op, e.g. sls.ssls
	nbursts int    // pool of bursts
	maps    bool
	closure string
	ticks   int
	wf      int
	wpend   int   // >0: Capabilities.MaximumClientWritesPending (capacity of a client's outbound queue)
	rms     []int // Receive Maximum values a may declare when it reconnects (ops rc0:<rm> ...)
}

func argStr(arg, name, def string) string {
	for _, f := range strings.Split(arg, ",") {
		if strings.HasPrefix(f, name+"=") {
			return f[len(name)+1:]
		}
	}
	return def
}

func parseQCfg(prop, arg string) qCfg {
	var rms []int
	if v := argStr(arg, "rms", ""); v != "" {
		for _, x := range strings.Split(v, ".") {
			n, _ := strconv.Atoi(x)
			rms = append(rms, n)
		}
	}
	return qCfg{
		rms:  rms,
		prop: prop, aVer: byte(argInt(arg, "v", 5)), rm: argInt(arg, "rm", 0), srm: argInt(arg, "srm", 0), maxPID: argInt(arg, "maxpid", 0),
		pubs: argInt(arg, "pubs", 3), qos: argStr(arg, "qos", "12"), conns: argInt(arg, "conns", 2), clean: argInt(arg, "clean", 0) == 1,
		take: argInt(arg, "take", 0) == 1, apubs: argInt(arg, "apubs", 0), aids: argInt(arg, "aids", 2), abase: argInt(arg, "abase", 0), aqos: argStr(arg, "aqos", "12"),
		adup: argInt(arg, "adup", 0), refuse: argStr(arg, "refuse", ""), rpubs: argInt(arg, "rpubs", 0), wbuf: argInt(arg, "wbuf", 0),
		bursts: argStr(arg, "bursts", ""), nbursts: argInt(arg, "nbursts", 1), maps: argInt(arg, "maps", 0) == 1, closure: argStr(arg, "closure", ""), ticks: argInt(arg, "ticks", 0),
		wf: argInt(arg, "wf", 0), wpend: argInt(arg, "wpend", 0),
	}
}

// getAllSite finds the instrumented map-range site inside Inflight.GetAll (line numbers
// move when /repo is edited, so the site is looked up in the instrumented source).
var getAllSiteCache string

func getAllSite() string {
	if getAllSiteCache != "" {
		return getAllSiteCache
	}
	getAllSiteCache = "inflight.go:"
	dir := os.Getenv("VERIF_DIR")
	if dir == "" {
		dir = "/verif"
	}
	f, err := os.Open(filepath.Join(dir, ".build", "mochi", "inflight.go"))
	if err != nil {
		return getAllSiteCache
	}
	defer f.Close()
	sc := bufio.NewScanner(f)
	in := false
	for sc.Scan() {
		l := sc.Text()
		if strings.HasPrefix(l, "func ") {
			in = strings.Contains(l, ") GetAll(")
		}
		if i := strings.Index(l, `zzvrt.Iter("`); in && i >= 0 {
			rest := l[i+len(`zzvrt.Iter("`):]
			if j := strings.IndexByte(rest, '"'); j > 0 {
				getAllSiteCache = rest[:j]
			}
		}
	}
	return getAllSiteCache
}

// splitAlts merges "!alt:<choices>" pseudo-ops into the op they follow.
func splitAlts(hist []string) (ops []string, alts [][]int) {
	for _, op := range hist {
		if strings.HasPrefix(op, "!alt:") {
			var cs []int
			for _, s := range strings.Split(op[5:], ".") {
				n, _ := strconv.Atoi(s)
				cs = append(cs, n)
			}
			if len(ops) > 0 {
				alts[len(ops)-1] = cs
			}
			continue
		}
		ops = append(ops, op)
		alts = append(alts, nil)
	}
	return
}

// qosRun builds the HistFn of a configuration. With cfg.maps the iteration order of the
// in-flight map inside Inflight.GetAll is part of the exploration: every execution
// records the choice points met during its last op, and for each one not yet fixed the
// alternatives are offered as "!alt" successors (stateless-DFS expansion), so all orders
// (all permutations up to 3 entries, rotations and reversals beyond) are enumerated.
func qosRun(prop string) func(arg string) explore.HistFn {
	return func(arg string) explore.HistFn {
		cfg := parseQCfg(prop, arg)
		return func(hist []string) explore.HistResult {
			ops, alts := splitAlts(hist)
			if !cfg.maps {
				r, _ := qosExec(cfg, ops, alts, nil)
				return r
			}
			// find the positions of the map choice points whose choice is not the default
			var prefix []int
			for iter := 0; ; iter++ {
				r, pts := qosExec(cfg, ops, alts, prefix)
				// pts: per op the GetAll choice points (position, n, chosen)
				fixed := true
				for i := range ops {
					for j, want := range alts[i] {
						if j >= len(pts[i]) {
							if want != 0 {
								r.Viol = append(r.Viol, explore.Violation{Key: "internal:alt-out-of-range", Msg: fmt.Sprintf("op %d %s: choice %d requested but only %d map points", i, ops[i], j, len(pts[i]))})
							}
							continue
						}
						if pts[i][j].chosen != want && fixed {
							fixed = false
							prefix = append(append([]int{}, pts[i][j].prefix...), want)
						}
					}
					if !fixed {
						break
					}
				}
				if fixed || iter > 12 {
					// offer the alternatives at the last op's not yet fixed points
					if n := len(ops); n > 0 {
						last := pts[n-1]
						for j := len(alts[n-1]); j < len(last); j++ {
							for c := 1; c < last[j].n; c++ {
								var cs []string
								for k := 0; k < j; k++ {
									cs = append(cs, strconv.Itoa(last[k].chosen))
								}
								cs = append(cs, strconv.Itoa(c))
								r.Next = append(r.Next, "!alt:"+strings.Join(cs, "."))
							}
						}
					}
					return r
				}
			}
		}
	}
}

type qPoint struct {
	n, chosen int
	prefix    []int // choices of all earlier points of the execution
}

// qosExec executes ops on a fresh broker; prefix is the scheduler/map choice prefix.
func qosExec(cfg qCfg, ops []string, alts [][]int, prefix []int) (explore.HistResult, [][]qPoint) {
	site := ""
	wcfg := world.Config{Caps: func(c *mqtt.Capabilities) {
		if cfg.srm > 0 {
			c.ReceiveMaximum = uint16(cfg.srm)
		}
		if cfg.wpend > 0 {
			c.MaximumClientWritesPending = int32(cfg.wpend)
		}
	}}
	if cfg.wbuf > 0 {
		wcfg.Opts = func(o *mqtt.Options) { o.ClientNetWriteBufferSize = cfg.wbuf }
	}
	if cfg.refuse != "" {
		wcfg.Hook = func(rh *world.RecHook) {
			if strings.Contains(cfg.refuse, "x") {
				rh.ACL = func(cl *mqtt.Client, topic string, write bool) bool { return !(write && topic == "x") }
			}
			if strings.Contains(cfg.refuse, "y") {
				rh.Publish = func(cl *mqtt.Client, pk packets.Packet) (packets.Packet, error) {
					if pk.TopicName == "y" {
						return pk, packets.ErrQuotaExceeded
					}
					return pk, nil
				}
			}
		}
	}
	if cfg.maps {
		site = getAllSite()
		wcfg.Exploring = true
		wcfg.MapSite = func(s string) bool { return strings.HasPrefix(s, site) }
	}
	h := &H{W: world.New(prefix, wcfg), Cl: map[string]*world.Client{}}
	if cfg.maxPID > 0 {
		h.W.S.Options.Capabilities.VerifSetMaxPacketID(uint32(cfg.maxPID))
	}
	q := &qModel{cfg: cfg, old: map[string]bool{}, in: map[uint16]*qIn{}, fwd: map[string]int{}, cnt: map[string]int{}, stepPubs: map[string]bool{}}
	pts := make([][]qPoint, len(ops))

	curRm := cfg.rm // Receive Maximum a declares in its next CONNECT
	aconn := func(clean bool) ref.Packet {
		if cfg.aVer >= 5 {
			props := []ref.Prop{{ID: ref.PSessionExpiry, Num: 1000000}}
			if curRm > 0 {
				props = append(props, ref.Prop{ID: ref.PReceiveMaximum, Num: uint32(curRm)})
			}
			return world.ConnectPacket("a", 5, clean, props...)
		}
		return world.ConnectPacket("a", cfg.aVer, clean)
	}
	subscribe := func() {
		q.recv(h.do("a", ref.Packet{Type: ref.SUBSCRIBE, PacketID: 999, Filters: []ref.Filter{{Filter: "t", Opts: 2}}}))
	}
	evSeen := 0
	scanEvents := func() {
		for ; evSeen < len(h.W.Events); evSeen++ {
			e := h.W.Events[evSeen]
			if e.Client != "a" {
				continue
			}
			if e.Name == "OnPublishDropped" || e.Name == "OnPacketIDExhausted" {
				if m := q.byTag(qTag(e.Tag)); m != nil && m.st == qQueued {
					m.st = qDropped
					q.count("reported_drops")
					if m.qos > 0 {
						m.dropWhy = "packet-ids-exhausted"
						if e.Name == "OnPublishDropped" {
							m.dropWhy = "write-queue-full"
							q.count("qos12_dropped_on_full_write_queue")
						}
					}
				}
			}
		}
	}
	collectS := func() {
		if cfg.apubs == 0 {
			return
		}
		for _, p := range h.poll("s") {
			if p.Type == ref.PUBLISH {
				q.fwd[string(p.Payload)]++
			}
		}
	}
	// endStep: quiescent-point bookkeeping
	endStep := func() {
		scanEvents()
		collectS()
		if q.armed {
			c := h.Cl["a"].C
			switch {
			case !q.connected:
				q.armed = false
			case c.FailWriteAt > 0 && c.Writes >= c.FailWriteAt:
				// the write failed during this step: the link is dead, the peer goes away
				q.count("write_faults_fired")
				for _, m := range q.msgs {
					if m.st == qQueued && m.qos > 0 {
						m.wfault = true
					}
				}
				h.logf("a: write #%d to the connection failed (injected); broker closed=%v; link dropped", c.FailWriteAt, c.Closed)
				if !c.Closed {
					h.Cl["a"].Drop()
				}
				h.Cl["a"].Poll()
				q.connected = false
				q.armed = false
			}
		}
		if q.connected && h.Cl["a"].Closed() {
			q.connected = false
			if q.trigger != "drop" {
				q.count("closed_by_broker")
			}
		}
		for _, m := range q.msgs {
			if m.st == qQueued && m.qos == 0 {
				m.st = qDropped // at most once: not delivered in the step it was published in; a later arrival is still judged for order
				q.count("qos0_not_delivered_at_quiescence")
			}
			if m.st == qQueued && q.connected {
				if !m.heldBack {
					q.count("messages_held_back_while_connected")
				}
				m.heldBack = true
			}
		}
	}
	// connect (re)connects a; kind: rc0 rc1 to0 to1 init
	connect := func(clean bool) {
		old := h.Cl["a"]
		q.conn++
		q.connStep = true
		q.armed = false // a fault belongs to the previous connection
		got := h.connect("a", aconn(clean))
		q.connected = true
		prevRm := q.rm
		q.rm = 0
		if cfg.aVer >= 5 {
			q.rm = curRm
		}
		q.rmShrunk = false
		if old != nil {
			old.Poll()
		}
		if len(got) == 0 || got[0].Type != ref.CONNACK || got[0].ReasonCode != 0 {
			q.find("any", "connect-refused:on-"+q.trigger, "CONNECT of a not accepted: %v", got)
			q.connected = !h.Cl["a"].Closed()
			q.connStep = false
			return
		}
		sp := got[0].SessionPresent
		if clean || !sp {
			if !clean && q.conn > 1 {
				q.count("session_not_present_on_clean0")
			}
			for _, m := range q.msgs {
				q.old[m.tag] = true
			}
			q.msgs = nil
			q.in = map[uint16]*qIn{}
		}
		for _, x := range q.in {
			x.reconn = true
			x.tx = 0
		}
		if sp && !clean && q.conn > 1 && len(cfg.rms) > 0 {
			unl := func(n int) int {
				if n == 0 {
					return 65535
				}
				return n
			}
			inflight := false
			for _, m := range q.msgs {
				if m.st == qSent || m.st == qRecd {
					inflight = true
				}
			}
			switch {
			case unl(q.rm) < unl(prevRm):
				q.rmShrunk = true
				q.count("resumptions_with_smaller_receive_maximum")
				if inflight {
					q.count("resumptions_with_smaller_receive_maximum_and_messages_in_flight")
				}
			case unl(q.rm) > unl(prevRm):
				q.count("resumptions_with_larger_receive_maximum")
			}
		}
		q.nrefConn, q.ndupConn = 0, 0
		if sp && !clean && q.conn > 1 {
			// non-vacuity (C12): the session is resumed after a QoS>0 message found a's outbound queue
			// full and a message published after it was transmitted
			for _, m := range q.msgs {
				if m.dropWhy != "write-queue-full" || m.st != qDropped {
					continue
				}
				for _, o := range q.msgs {
					if o.seq > m.seq && o.qos == m.qos && o.how != "" {
						q.count("resumptions_after_write_queue_overflow_and_later_delivery")
						break
					}
				}
			}
		}
		// expectations for the resumed session, from the states before this connection
		type exp struct {
			m  *qMsg
			st qState
		}
		var exps []exp
		for _, m := range q.msgs {
			exps = append(exps, exp{m, m.st})
		}
		q.recv(got[1:])
		if !sp || clean {
			subscribe()
		}
		q.connStep = false
		for _, e := range exps {
			m := e.m
			switch e.st {
			case qQueued:
				// accepted for the session, never transmitted so far (published while a was offline, or
				// held back behind a's Receive Maximum): when it is transmitted is up to flow control
				// (§4.9), but it has to stay in the session; judged by the closure "reconnect"
				if m.qos > 0 && !m.lost {
					q.count("queued_at_session_resumption")
					if m.fc || m.heldBack {
						q.count("deferred_at_session_resumption")
					}
					if m.st == qQueued {
						q.count("still_queued_after_session_resumption")
					}
				}
			case qSent:
				n := 0
				for _, p := range got[1:] {
					if p.Type == ref.PUBLISH && string(p.Payload) == m.tag {
						n++
					}
				}
				if n == 0 {
					pr, cause := q.lostCause(m)
					q.find(pr, cause, "session resumed (CONNACK sp=1) but %s (QoS %d, Sent id %d, first transmission: %s) was not redelivered: %v", m.tag, m.qos, m.pid, m.how, got)
					m.lost = true
					m.st = qDone
				} else if n > 1 {
					q.find("c09", "redelivered-twice-on-reconnect", "%s redelivered %d times after CONNACK: %v", m.tag, n, got)
				}
				q.count("redeliveries_expected")
			case qRecd:
				if m.relConn != q.conn {
					pr, cause := q.lostCause(m)
					if pr == "c09" {
						switch {
						case !m.relFault:
							cause = "pubrel-not-resent:" + strings.TrimPrefix(cause, "lost:")
						case cause == "lost:other":
							cause = "pubrel-not-resent:pubrel-write-failed"
						default:
							// the broker had already lost the message (known deferral shapes): the failing
							// PUBREL (0x92) that says so is what could not be written; keep that shape's key
						}
					}
					q.find(pr, cause, "session resumed but PUBREL for %s (id %d, PUBREC sent) was not resent: %v", m.tag, m.pid, got)
					m.lost = true
					m.st = qDone
				}
				q.count("pubrel_resends_expected")
			}
		}
	}

	h.connect("p", world.ConnectPacket("p", 4, true))
	if cfg.apubs > 0 {
		h.connect("s", world.ConnectPacket("s", 4, true))
		h.do("s", ref.Packet{Type: ref.SUBSCRIBE, PacketID: 900, Filters: []ref.Filter{{Filter: "u", Opts: 0}}})
	}
	q.trigger = "init"
	connect(false)
	ppid := uint16(100)

	applyOp := func(op string) {
		f := fields(op)
		q.trigger = f[0]
		q.stepQos0 = false
		q.dupAtLimit = false
		q.stepPubs = map[string]bool{}
		num := func(i int) int { n, _ := strconv.Atoi(f[i]); return n }
		switch f[0] {
		case "pub":
			qos := byte(num(1))
			q.npub++
			ppid++
			tag := fmt.Sprintf("m%d", q.npub)
			q.published(tag, qos)
			got := h.do("p", pub("t", tag, qos, ppid))
			accepted := qos == 0
			for _, p := range got {
				if p.Type == ref.PUBREC && qos == 2 {
					accepted = true
					h.do("p", ref.Packet{Type: ref.PUBREL, PacketID: ppid})
				}
				if p.Type == ref.PUBACK && qos == 1 {
					accepted = true
				}
			}
			if !accepted {
				// the broker did not take the publisher's message (not this model's subject): forget it
				q.msgs = q.msgs[:len(q.msgs)-1]
				q.count("publisher_not_acknowledged")
			}
			if q.connected {
				scanEvents() // a message reported as dropped during the step may be missing
				q.recv(h.poll("a"))
			}
		case "ack", "rec", "comp":
			id := uint16(num(1))
			var m *qMsg
			for _, o := range q.msgs {
				if o.pid == id && (o.st == qSent || o.st == qRecd) {
					m = o
				}
			}
			if m == nil {
				break
			}
			for _, x := range q.in {
				_ = x
			}
			if x := q.in[id]; x != nil {
				x.crossAck = true
				q.count("outbound_ack_while_same_inbound_id_held")
			}
			switch f[0] {
			case "ack":
				m.st = qDone
				q.recv(h.do("a", ref.Packet{Type: ref.PUBACK, PacketID: id}))
			case "comp":
				m.st = qDone
				q.recv(h.do("a", ref.Packet{Type: ref.PUBCOMP, PacketID: id}))
			case "rec":
				m.st = qRecd
				ev0 := len(h.W.Events)
				got := h.do("a", ref.Packet{Type: ref.PUBREC, PacketID: id})
				if c := h.Cl["a"].C; q.armed && c.Writes >= c.FailWriteAt {
					// the broker's answer could not be written. Did the broker process the PUBREC?
					processed := false
					for _, e := range h.W.Events[ev0:] {
						if e.Name == "OnPacketProcessed" && e.Client == "a" && e.Type == ref.PUBREC && e.PID == id {
							processed = true
						}
					}
					if processed && c.Pending() == 0 {
						m.relFault = true
						q.count("pubrel_write_faults")
					} else {
						// either state is acceptable for a client that cannot know: stop following the message
						m.lost = true
						m.st = qDone
						q.count("pubrec_unprocessed_at_fault")
					}
					break
				}
				var rel *ref.Packet
				for i := range got {
					if got[i].Type == ref.PUBREL && got[i].PacketID == id {
						rel = &got[i]
					}
				}
				if rel != nil && rel.ReasonCode >= 0x80 {
					pr, cause := q.lostCause(m)
					q.find(pr, cause, "PUBREC for %s (id %d, first transmission: %s) answered with PUBREL reason %#x: the broker no longer holds the message", m.tag, id, m.how, rel.ReasonCode)
					m.lost = true
					m.st = qDone
					// drop the failing PUBREL from what the generic observer sees
					var rest []ref.Packet
					for _, p := range got {
						if !(p.Type == ref.PUBREL && p.PacketID == id) {
							rest = append(rest, p)
						}
					}
					got = rest
				} else if rel == nil && !h.Cl["a"].Closed() {
					q.find("c09", "no-pubrel-after-pubrec", "PUBREC for %s (id %d) not answered with PUBREL: %v", m.tag, id, got)
				}
				q.recv(got)
			}
		case "drop":
			h.Cl["a"].Drop()
			h.logf("a: dropped")
			q.connected = false
		case "rc0", "rc1", "to0", "to1":
			if len(f) > 1 {
				curRm = num(1)
			}
			q.nconn++
			if f[0][0] == 't' {
				q.count("takeovers")
			}
			connect(f[0][2] == '1')
		case "apub":
			qos, id := byte(num(1)), uint16(num(2))
			q.ain++
			tag := fmt.Sprintf("a%d", q.ain)
			for _, o := range q.msgs {
				if qos > 0 && (o.st == qSent || o.st == qRecd) && o.pid == id {
					o.collided = true
					q.count("client_id_collides_with_outstanding_outbound_id")
				}
			}
			// non-vacuity: this publish would be refused if every refused publish / DUP
			// retransmission on this connection had kept a slot of the server's Receive Maximum
			if held, _ := q.inCount(); qos > 0 && cfg.srm > 0 && held+q.nrefConn+q.ndupConn >= cfg.srm {
				if q.nrefConn > 0 {
					q.count("own_publish_sensitive_to_slot_kept_by_refused_publish")
				}
				if q.ndupConn > 0 {
					q.count("own_publish_sensitive_to_slot_kept_by_dup_retransmission")
				}
			}
			if qos == 2 {
				q.in[id] = &qIn{tag: tag}
				if cfg.adup >= 2 {
					q.in[id].tx = 1
				}
			}
			q.stepQos0 = qos == 0
			if qos == 0 {
				q.count("own_qos0_publishes")
				if lim := cfg.srm; lim > 0 && len(q.in) == lim {
					q.count("own_qos0_publish_at_receive_maximum")
				}
			}
			got := h.do("a", pub("u", tag, qos, id))
			okAck := qos == 0
			for _, p := range got {
				if (qos == 1 && p.Type == ref.PUBACK || qos == 2 && p.Type == ref.PUBREC) && p.PacketID == id {
					okAck = true
					if p.ReasonCode >= 0x80 {
						q.find("c10", "inbound-publish-refused", "a's PUBLISH %s (QoS %d id %d) answered with reason %#x", tag, qos, id, p.ReasonCode)
					}
				}
			}
			q.recv(got)
			collectS()
			if !okAck && !h.Cl["a"].Closed() {
				q.find("c10", "inbound-publish-unanswered", "a's PUBLISH %s (QoS %d id %d) got no acknowledgement: %v", tag, qos, id, got)
			}
			if okAck && qos == 1 && q.fwd[tag] != 1 {
				q.find("c10", "inbound-qos1-not-forwarded-once", "a's QoS 1 publish %s acknowledged, subscriber holds %d copies", tag, q.fwd[tag])
			}
			if h.Cl["a"].Closed() && qos == 2 {
				delete(q.in, id)
			}
		case "adup":
			id := uint16(num(1))
			x := q.in[id]
			if x == nil {
				break
			}
			pk := pub("u", x.tag, 2, id)
			pk.Dup = true
			if cfg.adup >= 2 {
				_, pks := q.inCount()
				if lim := cfg.srm; lim > 0 && pks >= lim {
					q.dupAtLimit = true
				}
				x.tx++
				q.dupConn = q.conn
				q.ndupConn++
				q.count("own_dup_retransmissions")
				if x.reconn {
					q.count("own_dup_retransmissions_after_reconnect")
				}
			}
			q.recv(h.do("a", pk))
			collectS()
			if q.fwd[x.tag] > 1 {
				k := "inbound-qos2-forwarded-twice:other"
				if x.crossAck {
					k = "inbound-qos2-state-deleted-by:outbound-ack-same-id"
				}
				q.find("c10", k, "a's QoS 2 publish %s (id %d) reached the subscriber %d times after a DUP retransmission", x.tag, id, q.fwd[x.tag])
			}
		case "arel":
			id := uint16(num(1))
			x := q.in[id]
			if x == nil {
				break
			}
			for _, o := range q.msgs {
				if o.st == qRecd && o.pid == id {
					q.count("inbound_pubrel_while_outbound_same_id_awaits_pubcomp")
				}
				if (o.st == qSent || o.st == qRecd) && o.pid == id {
					o.relColl = true
					q.count("client_pubrel_id_collides_with_outstanding_outbound_id")
				}
			}
			q.arelConn = q.conn
			got := h.do("a", ref.Packet{Type: ref.PUBREL, PacketID: id})
			var comp *ref.Packet
			for i := range got {
				if got[i].Type == ref.PUBCOMP && got[i].PacketID == id {
					comp = &got[i]
				}
			}
			q.recv(got)
			collectS()
			inKey := func(symptom string) string {
				if x.crossAck {
					return "inbound-qos2-state-deleted-by:outbound-ack-same-id"
				}
				return symptom + ":other"
			}
			if comp != nil && comp.ReasonCode >= 0x80 {
				q.find("c10", inKey("inbound-qos2-state-lost"), "PUBREL for a's own exchange %s (id %d, in progress) answered with PUBCOMP reason %#x", x.tag, id, comp.ReasonCode)
			}
			if comp != nil && q.fwd[x.tag] != 1 {
				q.find("c10", inKey("inbound-qos2-not-forwarded-once"), "a's QoS 2 exchange %s completed, subscriber holds %d copies", x.tag, q.fwd[x.tag])
			}
			delete(q.in, id)
		case "failnext":
			q.nfault++
			q.armed = true
			c := h.Cl["a"].C
			c.FailWriteAt = c.Writes + 1
			h.logf("a: link breaks broker->client: write #%d will fail", c.FailWriteAt)
		case "tick":
			q.ticks++
			h.W.Tick(50000 * 1000)
		case "apubr":
			// a's publish to a topic on which the broker refuses publishes
			kind, qos, id := f[1], byte(num(2)), uint16(num(3))
			topic := map[string]string{"x": "x", "y": "y", "z": "$SYS/z"}[kind]
			q.nref++
			tag := fmt.Sprintf("r%d", q.nref)
			if qos == 2 {
				q.in[id] = &qIn{tag: tag}
				if cfg.adup >= 2 {
					q.in[id].tx = 1
				}
			}
			q.stepQos0 = qos == 0
			got := h.do("a", pub(topic, tag, qos, id))
			answered := qos == 0
			for _, p := range got {
				if (p.Type == ref.PUBACK || p.Type == ref.PUBREC) && p.PacketID == id && qos > 0 {
					answered = true
					switch {
					case p.ReasonCode >= 0x80:
						// MQTT-3.3.4-7 / 4.9: a PUBACK, or a PUBREC with a reason code of 0x80 or
						// greater, ends the exchange: the publish no longer counts
						delete(q.in, id)
						q.refConn = q.conn
						q.nrefConn++
						q.count("own_publishes_refused")
						q.count("own_publishes_refused_" + kind)
					case p.Type == ref.PUBACK:
						delete(q.in, id) // accepted and complete
						q.count("refusable_publish_accepted")
					default:
						q.count("refusable_publish_accepted") // QoS 2 exchange open as usual
					}
				}
			}
			q.recv(got)
			collectS()
			if !answered && !h.Cl["a"].Closed() {
				// unanswered: a has to keep counting it (never completes on this connection)
				if q.in[id] == nil {
					q.in[id] = &qIn{tag: tag}
					if cfg.adup >= 2 {
						q.in[id].tx = 1
					}
				}
				q.in[id].stuck = true
				q.count("refusable_publish_unanswered")
			}
			if h.Cl["a"].Closed() && qos == 2 {
				delete(q.in, id)
			}
		case "burst":
			// p sends several PUBLISH packets in one segment
			qos := byte(num(1))
			q.nburst++
			type sent struct {
				pid uint16
				m   *qMsg
			}
			var ss []sent
			for _, c := range f[2] {
				q.npub++
				ppid++
				tag := fmt.Sprintf("m%d", q.npub)
				m := q.published(tag, qos)
				m.burst = q.nburst
				payload := tag
				if c == 'l' {
					m.large = true
					n := cfg.wbuf
					if n == 0 {
						n = 2048
					}
					payload = tag + "." + strings.Repeat("L", n)
				}
				pk := pub("t", payload, qos, ppid)
				h.Cl["p"].Send(pk)
				h.logf("p: -> %s (no run)", pk)
				ss = append(ss, sent{ppid, m})
			}
			w0 := 0
			if q.connected {
				w0 = h.Cl["a"].C.Writes
			}
			h.W.Run()
			got := h.poll("p")
			for _, x := range ss {
				accepted := qos == 0
				for _, p := range got {
					if p.PacketID == x.pid && (p.Type == ref.PUBREC && qos == 2 || p.Type == ref.PUBACK && qos == 1) && p.ReasonCode < 0x80 {
						accepted = true
					}
				}
				if !accepted {
					for i, m := range q.msgs {
						if m == x.m {
							q.msgs = append(q.msgs[:i], q.msgs[i+1:]...)
							break
						}
					}
					q.count("publisher_not_acknowledged")
				}
			}
			for i, m := range q.msgs {
				m.seq = i
			}
			if q.connected {
				pks := h.poll("a")
				// non-vacuity: the packets were queued behind one another in a's outbound queue iff the
				// broker's writer coalesced some of them (fewer writes to the connection than packets)
				if n := len(pubsOf(pks)); n > 1 && h.Cl["a"].C.Writes-w0 < n {
					q.count("bursts_backlogged_in_outbound_queue")
					if strings.Contains(f[2], "sl") {
						q.count("bursts_backlogged_large_behind_small")
					}
				}
				scanEvents() // messages reported as dropped during the step may be missing
				q.recv(pks)
			}
			if qos == 2 {
				for _, x := range ss {
					h.do("p", ref.Packet{Type: ref.PUBREL, PacketID: x.pid})
				}
				if q.connected {
					q.recv(h.poll("a"))
				}
			}
			q.count("bursts")
			if strings.Contains(f[2], "sl") {
				q.count("bursts_large_behind_small")
			}
		}
	}

	var ptsAll []zzvrt.ChoicePoint
	preKey := ""
	for i, op := range ops {
		h.Step = i
		h.last = i == len(ops)-1
		q.report = h.last
		q.nondefMap = false
		for _, c := range alts[i] {
			if c != 0 {
				q.nondefMap = true
			}
		}
		alt := ""
		if len(alts[i]) > 0 {
			alt = fmt.Sprintf(" (map choices %v)", alts[i])
		}
		h.logf("--- op %d: %s%s", i, op, alt)
		start := len(h.W.X.Points)
		if cfg.maps && h.last {
			preKey = h.W.State() + "|" + q.String() + "|" + op
		}
		applyOp(op)
		endStep()
		if cfg.maps {
			ptsAll = h.W.X.Points
			for k := start; k < len(ptsAll); k++ {
				if ptsAll[k].Kind == zzvrt.ChMap && strings.HasPrefix(ptsAll[k].Site, site) {
					pre := make([]int, k)
					for x := 0; x < k; x++ {
						pre[x] = ptsAll[x].Chosen
					}
					pts[i] = append(pts[i], qPoint{n: ptsAll[k].N, chosen: ptsAll[k].Chosen, prefix: pre})
				}
			}
		}
	}
	q.nondefMap = false

	// enabled ops
	var next []string
	withRms := func(op string) []string {
		if len(cfg.rms) == 0 {
			return []string{op}
		}
		var out []string
		for _, n := range cfg.rms {
			out = append(out, fmt.Sprintf("%s:%d", op, n))
		}
		return out
	}
	if q.npub < cfg.pubs {
		for _, c := range cfg.qos {
			next = append(next, "pub:"+string(c))
		}
	}
	if cfg.bursts != "" && q.nburst < cfg.nbursts {
		for _, pat := range strings.Split(cfg.bursts, ".") {
			if q.npub+len(pat) <= cfg.pubs {
				for _, c := range cfg.qos {
					next = append(next, "burst:"+string(c)+":"+pat)
				}
			}
		}
	}
	if q.connected {
		for _, m := range q.msgs {
			switch {
			case m.st == qSent && m.lastConn == q.conn && m.qos == 1:
				next = append(next, fmt.Sprintf("ack:%d", m.pid))
			case m.st == qSent && m.lastConn == q.conn && m.qos == 2:
				next = append(next, fmt.Sprintf("rec:%d", m.pid))
			case m.st == qRecd && m.relConn == q.conn:
				next = append(next, fmt.Sprintf("comp:%d", m.pid))
			}
		}
		lim := cfg.srm
		if lim == 0 {
			lim = 1024
		}
		if q.ain < cfg.apubs && strings.Contains(cfg.aqos, "0") {
			next = append(next, "apub:0:0") // QoS 0 never counts against the server's Receive Maximum
		}
		inMsgs, inPks := q.inCount()
		within := inMsgs < lim && inPks < lim // one more PUBLISH packet keeps a within the server's Receive Maximum under every reading
		if q.ain < cfg.apubs && within {
			for id := cfg.abase + 1; id <= cfg.abase+cfg.aids; id++ {
				if q.in[uint16(id)] != nil {
					continue
				}
				for _, c := range cfg.aqos {
					if c != '0' {
						next = append(next, fmt.Sprintf("apub:%s:%d", string(c), id))
					}
				}
			}
		}
		var ids []int
		for id := range q.in {
			ids = append(ids, int(id))
		}
		sort.Ints(ids)
		rid := cfg.abase + cfg.aids + 1 // the publishes to refusing topics use their own packet id
		if q.nref < cfg.rpubs {
			for _, k := range cfg.refuse {
				for _, c := range cfg.aqos {
					switch {
					case c == '0':
						next = append(next, fmt.Sprintf("apubr:%s:0:0", string(k)))
					case within && q.in[uint16(rid)] == nil:
						next = append(next, fmt.Sprintf("apubr:%s:%s:%d", string(k), string(c), rid))
					}
				}
			}
		}
		for _, id := range ids {
			if q.in[uint16(id)].stuck {
				continue
			}
			switch {
			case cfg.adup == 1, cfg.adup == 2 && inPks < lim, cfg.adup == 3 && inPks <= lim:
				next = append(next, fmt.Sprintf("adup:%d", id))
			}
			next = append(next, fmt.Sprintf("arel:%d", id))
		}
		if q.nfault < cfg.wf && !q.armed && cfg.apubs == 0 {
			next = append(next, "failnext")
		}
		if q.nconn < cfg.conns {
			next = append(next, "drop")
			if cfg.take {
				next = append(next, withRms("to0")...)
				if cfg.clean {
					next = append(next, withRms("to1")...)
				}
			}
		}
	} else if q.nconn < cfg.conns {
		next = append(next, withRms("rc0")...)
		if cfg.clean {
			next = append(next, withRms("rc1")...)
		}
	}
	if q.ticks < cfg.ticks {
		next = append(next, "tick")
	}
	key := h.W.State() + "|" + q.String()
	if n := len(ops); cfg.maps && n > 0 && len(pts[n-1]) > 0 {
		// the alternatives offered below belong to (state before the last op, op): histories are
		// only merged if they agree on that too, otherwise orders would be lost by deduplication
		key += "|pre:" + preKey
		q.cnt["ops_with_getall_order_choice"]++
		if len(alts[n-1]) > 0 {
			q.cnt["nondefault_getall_orders_executed"]++
		}
	}

	// closures on the replayed instance (do not influence the key)
	h.last = true
	q.report = true
	// ackAll: a acknowledges everything outstanding on the connection and completes its own
	// exchanges, round after round, until nothing is outstanding
	ackAll := func() {
		for round := 0; round < 64; round++ {
			progress := false
			for _, m := range q.msgs {
				if !q.connected {
					break
				}
				switch {
				case m.st == qSent && m.lastConn == q.conn && m.qos == 1:
					applyOp(fmt.Sprintf("ack:%d", m.pid))
				case m.st == qSent && m.lastConn == q.conn && m.qos == 2:
					applyOp(fmt.Sprintf("rec:%d", m.pid))
				case m.st == qRecd && m.relConn == q.conn:
					applyOp(fmt.Sprintf("comp:%d", m.pid))
				default:
					continue
				}
				progress = true
				endStep()
			}
			var ids []int
			for id := range q.in {
				ids = append(ids, int(id))
			}
			sort.Ints(ids)
			for _, id := range ids {
				if q.connected && q.in[uint16(id)] != nil && !q.in[uint16(id)].stuck {
					applyOp(fmt.Sprintf("arel:%d", id))
					endStep()
					progress = true
				}
			}
			if !progress {
				break
			}
		}
	}
	switch cfg.closure {
	case "reconnect":
		// from every state: drop + reconnect with clean start 0 must redeliver everything unacknowledged
		h.logf("--- closure: drop + reconnect clean start 0")
		if q.connected {
			h.Cl["a"].Drop()
			q.connected = false
		}
		q.trigger = "rc0"
		connect(false)
		endStep()
		// A message accepted for the session that was never transmitted (held back behind a's
		// Receive Maximum, or published while a was offline) need not be transmitted at once
		// after CONNACK, but it stays in the session until acknowledged: if a acknowledges
		// everything it receives and resumes the session once more (and acknowledges again),
		// the message must have been transmitted by then.
		stillQueued := func() *qMsg {
			for _, m := range q.msgs {
				if m.st == qQueued && m.qos > 0 && !m.lost {
					return m
				}
			}
			return nil
		}
		if q.connected && stillQueued() != nil {
			q.count("queued_after_resumption_probes")
			h.logf("--- closure: a message is still queued after the session was resumed: a acknowledges everything, resumes the session again, acknowledges everything")
			ackAll()
			if q.connected && stillQueued() != nil {
				h.Cl["a"].Drop()
				q.connected = false
				q.trigger = "rc0"
				connect(false)
				endStep()
				if q.connected {
					ackAll()
				}
			}
			if m := stillQueued(); m != nil && q.connected {
				shape := "other"
				switch {
				case q.everRel:
					// earlier in the session a held-back message was released (known defect: the release
					// deletes the released message's in-flight record although it is unacknowledged, its
					// packet id is assigned again and a's acknowledgement then hits the wrong record)
					shape = "after-deferred-release"
				case m.wfault:
					// the write that failed (injected) may have been the message's first transmission: the
					// broker has to keep the message all the same (known defect: the deferred release
					// deletes the in-flight record after writing, whether or not the write succeeded)
					shape = "after-failed-write"
				case m.fc || m.heldBack:
					shape = "deferred-behind-receive-maximum"
				case m.offline:
					shape = "published-while-offline"
				}
				q.find("c09", "queued-message-gone-after-session-resumption:"+shape, "%s (QoS %d, published #%d, accepted for a's session, never transmitted, not reported as dropped) is still not transmitted after a resumed the session twice and acknowledged everything it received: it is no longer in the session", m.tag, m.qos, m.seq)
			}
		}
	case "ackall":
		if q.connected {
			h.logf("--- closure: a acknowledges everything outstanding")
			ackAll()
			if q.connected {
				for _, m := range q.msgs {
					if m.st == qQueued {
						cause := "other"
						if q.everRel {
							cause = "after-deferred-release"
						}
						q.find("c11", "queued-never-sent:"+cause, "a acknowledged everything outstanding, yet %s (QoS %d, published #%d) was never transmitted", m.tag, m.qos, m.seq)
						break
					}
				}
				q.count("ackall_closures")
			}
		}
	}

	for _, fd := range q.findings {
		pr := fd.Key[:strings.IndexByte(fd.Key, ':')]
		if pr == cfg.prop || pr == "any" {
			k := fd.Key
			if pr == "any" {
				k = cfg.prop + fd.Key[3:]
			}
			h.Viol = append(h.Viol, explore.Violation{Key: k, Msg: fd.Msg})
		} else if h.last {
			q.cnt["other_property_findings"]++
		}
	}
	r := h.finish(key, next)
	r.Counters = q.cnt
	return r, pts
}

// qosFold runs the scenarios and folds their counters into the report.
func qosFold(c *explore.Ctx, sts []*explore.BFSStats, need ...string) {
	tot := map[string]int64{}
	for _, st := range sts {
		for k, v := range st.Counters {
			tot[k] += v
		}
	}
	for k, v := range tot {
		c.Rep.Count(k, v)
	}
	if os.Getenv("VERIF_SCEN") != "" {
		return
	}
	for _, n := range need {
		if tot[n] == 0 {
			c.Rep.Add(explore.Violation{Key: "internal:vacuous:" + n, Msg: "the scenarios never produced the case '" + n + "' they are meant to exercise"})
		}
	}
}
