package props

import (
	"bytes"
	"fmt"
	"strings"
	"time"

	"github.com/mochi-mqtt/server/v2/mempool"
	"github.com/mochi-mqtt/server/v2/zzvrt"

	"verif/explore"
)

// C41: a buffer obtained from the packet buffer pool is always empty, is never handed to
// two users at the same time, and a capped pool never hands out (because it never keeps)
// a buffer whose capacity exceeds its cap.
//
// Scenario "c41" runs directly on mempool.NewBuffer(max) with the modelled sync.Pool
// (vsync.Pool: LIFO; Pool.Get / Pool.Put are scheduling points; a Get on a non-empty pool
// may, as the environment choice "pool-miss", find it emptied by a garbage collection).
// A program = pool kind x per-thread lists of rounds; one round = Get -> monitor ->
// write n bytes -> monitor -> Put. The program is selected by the first (environment)
// choice point of the execution, choice 0 being an empty program, so that one DFS run
// covers a whole family of programs and every program costs exactly one Env deviation.
//
// Oracle (written from the property statement, nothing of mempool's code is consulted):
//   - Get returns a buffer with Len()==0,
//   - Get never returns a buffer that another user currently holds (between its Get
//     and the moment it calls Put), and a held buffer's content is exactly what its
//     holder wrote,
//   - with max>0, Get never returns Cap()>max,
//   - after the threads finished the pool is drained: every buffer it kept is empty,
//     within the cap, and was put exactly once since it was last handed out.

type c41Prog struct {
	Max     int
	Threads [][]int // per thread: write sizes per round
	Two     bool    // family "2p": thread 0 uses a pool with cap Max, the other threads a SECOND pool with cap Max2
	Max2    int
}

func (p c41Prog) String() string {
	var th []string
	for _, t := range p.Threads {
		th = append(th, strings.Trim(strings.ReplaceAll(fmt.Sprint(t), " ", ","), "[]"))
	}
	if p.Two {
		return fmt.Sprintf("max=%d,second-pool-max=%d|%s", p.Max, p.Max2, strings.Join(th, "|"))
	}
	return fmt.Sprintf("max=%d|%s", p.Max, strings.Join(th, "|"))
}

// c41Programs enumerates the program family named by arg:
//
//	"2x2": 2 threads, 1..2 rounds each;  "3x1": 3 threads, 1 round;  "3x2": 3 threads, 1..2 rounds.
//
// Sizes per round: 0, 1 and over (max+1; 65 for the uncapped pool, i.e. beyond the
// 64-byte minimum allocation of bytes.Buffer). Pools: uncapped, cap 8 (below the
// minimum allocation: any written buffer is over cap), cap 64 (small writes stay within).
func c41Programs(arg string) []c41Prog {
	var out []c41Prog
	if arg == "2p" {
		// two pools in one process: what one releases must never come out of the other
		for _, mm := range [][2]int{{0, 8}, {64, 8}, {0, 64}, {8, 64}} {
			over2 := mm[1] + 1
			var seq12 [][]int
			for _, a := range []int{1, over2} {
				seq12 = append(seq12, []int{a})
				for _, b := range []int{1, over2} {
					seq12 = append(seq12, []int{a, b})
				}
			}
			for _, a := range seq12 {
				for _, b := range [][]int{{0}, {1}, {0, 1}, {1, 1}} {
					out = append(out, c41Prog{Max: mm[0], Threads: [][]int{a, b}, Two: true, Max2: mm[1]})
				}
			}
		}
		return out
	}
	for _, max := range []int{0, 8, 64} {
		over := max + 1
		if max == 0 {
			over = 65
		}
		sizes := []int{0, 1, over}
		var seq1, seq2 [][]int
		for _, a := range sizes {
			seq1 = append(seq1, []int{a})
			for _, b := range sizes {
				seq2 = append(seq2, []int{a, b})
			}
		}
		seq12 := append(append([][]int{}, seq1...), seq2...)
		switch arg {
		case "2x2":
			for _, a := range seq12 {
				for _, b := range seq12 {
					out = append(out, c41Prog{Max: max, Threads: [][]int{a, b}})
				}
			}
		case "3x1":
			for _, a := range seq1 {
				for _, b := range seq1 {
					for _, c := range seq1 {
						out = append(out, c41Prog{Max: max, Threads: [][]int{a, b, c}})
					}
				}
			}
		case "3x2":
			for _, a := range seq12 {
				for _, b := range seq12 {
					for _, c := range seq12 {
						if len(a)+len(b)+len(c) > 3 {
							out = append(out, c41Prog{Max: max, Threads: [][]int{a, b, c}})
						}
					}
				}
			}
		}
	}
	return out
}

func c41Run(arg string) explore.RunFn {
	progs := c41Programs(arg)
	return func(prefix []int) explore.Outcome {
		x := zzvrt.Begin(prefix)
		x.SetExploring(true)
		x.QuietPool = false
		x.EnvSite = func(site string) bool { return site == "pool-miss" || site == "c41-program" }
		defer x.End()

		o := explore.Outcome{Counters: map[string]int{}}
		pi := zzvrt.Choose("c41-program", len(progs)+1)
		if pi == 0 {
			o.Points, o.Obs, o.Divergence = x.Points, "empty-program", x.Divergence()
			return o
		}
		prog := progs[pi-1]
		pool := mempool.NewBuffer(prog.Max)
		pool2 := pool
		if prog.Two {
			pool2 = mempool.NewBuffer(prog.Max2)
		}

		var viol []explore.Violation
		seenKey := map[string]bool{}
		add := func(key, msg string) {
			if !seenKey[key] {
				seenKey[key] = true
				viol = append(viol, explore.Violation{Key: key, Msg: fmt.Sprintf("program %s: %s", prog, msg)})
			}
		}
		kind := "uncapped"
		if prog.Max > 0 {
			kind = "capped"
		}
		held := map[*bytes.Buffer]int{}     // buffer -> holder thread (currently handed out)
		seen := map[*bytes.Buffer]bool{}    // buffers ever handed out
		inPool := map[*bytes.Buffer]int{}   // number of Puts since last hand-out
		wrote := map[*bytes.Buffer][]byte{} // what the holder wrote
		poolOf := map[*bytes.Buffer]bool{}  // family 2p: buffer -> it was last put into the second pool
		var log []string

		maxOf := func(ti int) int {
			if prog.Two && ti > 0 {
				return prog.Max2
			}
			return prog.Max
		}
		check := func(who int, b *bytes.Buffer, where string) {
			if b == nil {
				add("nil-buffer:"+kind, where+": Get returned nil")
				return
			}
			if b.Len() != 0 {
				add("dirty-buffer:"+kind, fmt.Sprintf("%s: Get returned a buffer with Len()=%d content %q", where, b.Len(), b.Bytes()))
			}
			if h, ok := held[b]; ok {
				add("shared-buffer:handed-out-while-held:"+kind, fmt.Sprintf("%s: Get returned the buffer that thread %d still holds", where, h))
			}
			if mx := maxOf(who); mx > 0 && b.Cap() > mx {
				add("overcap-buffer:handed-out", fmt.Sprintf("%s: Get returned Cap()=%d from a pool capped at %d", where, b.Cap(), mx))
			}
			if owner, ok := poolOf[b]; ok && prog.Two && owner != (who > 0) {
				add("foreign-buffer:handed-out", fmt.Sprintf("%s: Get returned a buffer that was released into the OTHER pool", where))
			}
		}

		for ti, rounds := range prog.Threads {
			ti, rounds := ti, rounds
			zzvrt.Go(fmt.Sprintf("user%d", ti), func() {
				pl, mx := pool, prog.Max
				if prog.Two && ti > 0 {
					pl, mx = pool2, prog.Max2
				}
				for ri, n := range rounds {
					b := pl.Get()
					where := fmt.Sprintf("thread %d round %d", ti, ri)
					check(ti, b, where)
					if b == nil {
						return
					}
					reused := seen[b]
					if reused {
						o.Counters["reused_buffer"]++
						if inPool[b] > 1 {
							add("shared-buffer:pooled-twice:"+kind, where+": the same buffer was in the pool more than once")
						}
					}
					seen[b] = true
					inPool[b] = 0
					held[b] = ti
					data := bytes.Repeat([]byte{byte('A' + ti)}, n)
					b.Write(data)
					wrote[b] = append([]byte{}, b.Bytes()...)
					log = append(log, fmt.Sprintf("t%d.get(reused=%v,cap=%s)", ti, reused, c41CapClass(b.Cap(), mx)))
					zzvrt.Point("c41-use") // the user works with the buffer for a while
					if !bytes.Equal(b.Bytes(), wrote[b]) || held[b] != ti {
						add("shared-buffer:content-changed-while-held:"+kind, fmt.Sprintf("%s: buffer held %q after the holder's write, now holds %q", where, wrote[b], b.Bytes()))
					}
					if mx > 0 && b.Cap() > mx {
						o.Counters["overcap_put"]++
					}
					delete(held, b)
					inPool[b]++
					poolOf[b] = prog.Two && ti > 0
					pl.Put(b)
					log = append(log, fmt.Sprintf("t%d.put", ti))
				}
			})
		}
		x.Run()
		x.SetExploring(false)

		// drain: what did the pool keep?
		puts := 0
		for _, r := range prog.Threads {
			puts += len(r)
		}
		kept := 0
		for i := 0; i <= puts; i++ {
			b := pool.Get()
			if b == nil {
				add("nil-buffer:"+kind, "drain: Get returned nil")
				break
			}
			if !seen[b] {
				break // fresh buffer: the pool is empty
			}
			kept++
			if b.Len() != 0 {
				add("dirty-buffer:kept:"+kind, fmt.Sprintf("drain: pool kept a buffer with Len()=%d", b.Len()))
			}
			if prog.Max > 0 && b.Cap() > prog.Max {
				add("overcap-buffer:kept", fmt.Sprintf("drain: pool capped at %d kept a buffer with Cap()=%d", prog.Max, b.Cap()))
			}
			if _, ok := held[b]; ok {
				add("shared-buffer:handed-out-while-held:"+kind, "drain: pool holds a buffer that is still handed out")
			}
			held[b] = -1 // the drain keeps everything it gets
		}
		if prog.Two {
			for i := 0; i <= puts; i++ {
				b := pool2.Get()
				if b == nil || !seen[b] {
					break
				}
				kept++
				if b.Len() != 0 {
					add("dirty-buffer:kept:second-pool", fmt.Sprintf("drain: second pool kept a buffer with Len()=%d", b.Len()))
				}
				if prog.Max2 > 0 && b.Cap() > prog.Max2 {
					add("overcap-buffer:kept", fmt.Sprintf("drain: second pool capped at %d kept a buffer with Cap()=%d", prog.Max2, b.Cap()))
				}
				if _, ok := held[b]; ok {
					add("shared-buffer:handed-out-while-held:second-pool", "drain: a buffer came out of both pools")
				}
				held[b] = -1
			}
			o.Counters["two_pool_programs"] = 1
		}
		o.Counters["kept_buffers"] += kept
		for _, p := range x.Points {
			if p.Kind == zzvrt.ChEnv && p.Site == "pool-miss" && p.Chosen == 1 {
				o.Counters["pool_miss_taken"]++
			}
		}
		o.Counters["programs_run"] = 1
		viol = append(viol, execViolations(x)...)
		o.Points, o.Divergence, o.Steps = x.Points, x.Divergence(), x.Steps()
		o.Viol = viol
		o.Obs = prog.String() + " :: " + strings.Join(log, " ") + fmt.Sprintf(" kept=%d", kept)
		return o
	}
}

func c41CapClass(c, max int) string {
	switch {
	case c == 0:
		return "0"
	case max > 0 && c > max:
		return "over"
	}
	return "ok"
}

// execViolations is runtimeViolations for a bare execution (no broker world).
func execViolations(x *zzvrt.Exec) []explore.Violation {
	var out []explore.Violation
	for _, ev := range x.Events {
		if ev.Kind == "panic" {
			first := strings.SplitN(ev.Detail, "\n", 2)[0]
			out = append(out, explore.Violation{Key: "panic:" + panicSite(ev.Detail), Msg: "panic in " + ev.Thread + ": " + first, Trace: strings.Split(ev.Detail, "\n")})
		} else {
			out = append(out, explore.Violation{Key: ev.Kind, Msg: ev.Thread + ": " + ev.Detail})
		}
	}
	if d, what := x.Deadlocked(); d {
		out = append(out, explore.Violation{Key: "deadlock", Msg: "no thread enabled while threads wait for locks: " + what})
	}
	if x.HorizonHit {
		out = append(out, explore.Violation{Key: "internal:horizon", Msg: "step horizon hit"})
	}
	if a := x.Alive(); len(a) > 0 {
		out = append(out, explore.Violation{Key: "stuck-thread", Msg: fmt.Sprintf("threads did not finish: %v", a)})
	}
	return out
}

func init() {
	explore.RegisterDFS("c41", c41Run)
	explore.Register("C41", func(c *explore.Ctx) {
		c.Rep.Level = "model_checking"
		c.Rep.Assumption("sync.Pool is modelled as a LIFO store whose Get may find the pool emptied (environment choice pool-miss); per-P caches and victim caches of the real sync.Pool are not modelled (they only change WHICH pooled buffer is returned, never hand one out twice)")
		c.Rep.Assumption("scheduling points: Pool.Get, Pool.Put and one point while a user holds a buffer; bytes.Buffer itself is not instrumented, so unsynchronised accesses to one buffer are C33's subject, not C41's")
		c.Rep.Set("program_families", map[string]int{"2x2": len(c41Programs("2x2")), "3x1": len(c41Programs("3x1")), "3x2": len(c41Programs("3x2")), "2p": len(c41Programs("2p"))})
		unb := []explore.Bounds{{Unbounded: true}}
		a := newDfsAgg(c)
		if c.Quick() {
			a.run("c41", "2x2", unb, 35*time.Second)
			a.run("c41", "3x1", unb, 15*time.Second)
			a.run("c41", "2p", unb, 15*time.Second)
			a.run("c41", "3x2", []explore.Bounds{{Preempt: 0, Env: 1}, {Preempt: 1, Env: 2}}, 20*time.Second)
		} else {
			a.run("c41", "2x2", unb, 2*time.Minute)
			a.run("c41", "3x1", unb, 1*time.Minute)
			a.run("c41", "2p", unb, 1*time.Minute)
			a.run("c41", "3x2", []explore.Bounds{{Preempt: 1, Env: 2}, {Preempt: 2, Env: 3}, {Preempt: 3, Env: 3}, {Unbounded: true}}, 7*time.Minute)
		}
		a.requireCounters("reused_buffer", "overcap_put", "pool_miss_taken", "kept_buffers")
	})
}
