package props

import (
	"fmt"
	"sort"
	"strings"
	"time"

	mqtt "github.com/mochi-mqtt/server/v2"

	"verif/explore"
	"verif/ref"
	"verif/world"
)

// C21: (a) if the broker dies between any two storage writes, a broker restarted on that
// store still has every subscription, retained message and in-flight message that was
// acknowledged to a client before the crash and not removed before it; (b) a client
// connecting with Clean Start 1 after the restart never receives messages because of
// subscriptions of a session that was clean, expired or taken over before the crash;
// (c) storage writes issued for a superseded session never delete state belonging to the
// live session with the same client identifier.
//
// E4 on top of E2: scenario "c21" (arg "be=<backend>[,deep]") enumerates histories by BFS
// with state deduplication; every history is first executed completely with the logging
// storage wrapper (each mutating hook call = one write, tagged with the issuing *Client).
// Then, for every write boundary k that lies in the history's LAST operation (the
// boundaries of earlier operations belong to the history's prefixes, which are
// enumerated themselves), the history is re-executed on a fresh store with every write
// after the k-th dropped, the store is released without shutdown, a new broker + new hook
// instance is started on it, and the monitors are evaluated:
//   (a) reference model of acknowledged state, built ONLY from what the clients sent and
//       from the broker output that had reached a connection before write k+1 was issued:
//       subscription = SUBACK < 0x80 seen, until UNSUBSCRIBE / clean start / session end
//       is requested; retained = PUBACK of the retained publish seen (while a newer one is
//       unacknowledged either value is accepted), until a clearing publish is sent;
//       in-flight = publisher's PUBACK seen while a persistent session held an
//       acknowledged QoS 1 subscription, until that session's client sends its PUBACK.
//       Only persistent, unexpired sessions carry obligations.
//   (b) after the restart each client id connects with Clean Start 1, a fresh publisher
//       publishes to every topic: any delivery is a resurrection (alarm only if the old
//       session was clean/ended, expired or taken over, as the property says).
//   (c) on the complete run: a delete issued with a *Client that is not the one most
//       recently established for its id, hitting an in-flight id / filter the live
//       client object holds at that moment (or the client record); an overwrite of the
//       client record by a superseded *Client with different persisted settings is
//       reported under its own key.
// Alphabet: A = "a:b" (v5) connect {resume+expiry 60, clean+expiry 60, no expiry},
// takeover (connect while connected), DISCONNECT, drop, subscribe c, unsubscribe c,
// QoS 1 publish to c {plain, retained, retained clear}, PUBACK by A, 40 s tick.
//
// Menu "quota" (arg "be=<backend>,sc=quota[,deep]"): every history starts with the fixed
// prefix [con|A|r, sub|A|c|o]: A connects with Receive Maximum 1 (resume + expiry 60) and
// subscribes with QoS 1; the alphabet is QoS 1 publish to c (pool 3), PUBACK by A, drop,
// reconnect {Receive Maximum 1, default} (deep: takeover, 40 s tick, pool 4). With one
// message unacknowledged every further message is held back by the broker until A
// acknowledges: the publisher has its PUBACK, the subscriber has seen nothing, and the
// message is owed to the persistent session exactly like one that was sent (the obligation
// of (a) does not depend on whether the broker has sent the message yet). A lost message
// that was published while A's Receive Maximum was used up (A connected, as many
// deliveries unacknowledged on its connection as its Receive Maximum) carries the key
// suffix ":held-back-behind-receive-maximum", unless the crash lies inside the publish
// operation of that very message (between the publisher's PUBACK and the store write: the
// same window, and the same key, as for a message that is sent at once).

type c21Model struct {
	subs   map[string]bool     // "A|c"
	ret    map[string][]string // topic -> acceptable payloads (nil: no obligation)
	infl   map[string]bool     // "A|m1"
	kind   map[string]string   // name -> "" | persistent | ephemeral
	up     map[string]bool
	discAt map[string]int64 // ms
	class  map[string]string
	cand   []string // in-flight candidates of the publish in progress
	newRet string
	held   map[string]bool // "A|m2": published while A's Receive Maximum was used up
}

func newC21Model() *c21Model {
	return &c21Model{subs: map[string]bool{}, ret: map[string][]string{}, infl: map[string]bool{}, kind: map[string]string{}, up: map[string]bool{},
		discAt: map[string]int64{}, class: map[string]string{}, held: map[string]bool{}}
}

func (m *c21Model) endSession(n, why string) {
	for k := range m.subs {
		if strings.HasPrefix(k, n+"|") {
			delete(m.subs, k)
		}
	}
	for k := range m.infl {
		if strings.HasPrefix(k, n+"|") {
			delete(m.infl, k)
		}
	}
	m.kind[n] = ""
	if why != "" {
		m.class[n] = why
	}
}

// before: what the clients REQUEST with this op takes effect on the obligations at once.
func (m *c21Model) before(op string, s *stScen) {
	f := strings.Split(op, "|")
	now := s.W.X.NowMillis()
	switch f[0] {
	case "con":
		n := f[1]
		if m.up[n] {
			m.class[n] = "taken-over"
			if m.kind[n] == "ephemeral" {
				// takeover of a live connection whose session expiry is 0: the specification
				// ends that session with the old connection, mochi resumes it (DESIGN 3.2):
				// whatever the old session held carries no obligation any more
				m.endSession(n, "taken-over")
			}
		}
		if f[2] == "c" {
			why := ""
			if m.kind[n] != "" {
				why = "clean-session"
				if m.up[n] {
					why = "taken-over"
				}
			}
			m.endSession(n, why)
		}
		if f[2] == "n" && m.kind[n] == "persistent" {
			m.kind[n] = "ephemeral" // resumed with expiry 0: ends with this connection
		}
	case "dis", "drop":
		n := f[1]
		if m.kind[n] == "ephemeral" {
			m.endSession(n, "clean-session")
		}
		m.up[n] = false
		m.discAt[n] = now
	case "unsub":
		delete(m.subs, f[1]+"|"+f[2])
	case "pub":
		m.cand, m.newRet = nil, ""
		payload := fmt.Sprintf("m%d", s.Pubs+1)
		if f[2] == "1" {
			if f[3] == "clr" {
				m.ret[f[1]] = nil
			} else {
				if m.ret[f[1]] != nil {
					m.ret[f[1]] = append(m.ret[f[1]], payload)
				}
				m.newRet = payload
			}
		}
		if f[3] != "clr" {
			for k := range m.subs {
				n := stOwner(k)
				if k == n+"|"+f[1] && m.kind[n] == "persistent" {
					m.cand = append(m.cand, n+"|"+payload)
					if s.Up[n] && s.Mode[n] == "r" && len(s.Pend[n]) >= 1 {
						m.held[n+"|"+payload] = true
					}
				}
			}
		}
	case "ack":
		n := f[1]
		id := s.Pend[n][0]
		for _, p := range s.Seen[n] {
			if p.PacketID == id {
				delete(m.infl, n+"|"+string(p.Payload)) // last one with that id wins below
			}
		}
	case "tick":
		for n, k := range m.kind {
			if k == "persistent" && !m.up[n] && now+stTickMs-m.discAt[n] >= stSEI*1000 {
				m.endSession(n, "expired")
			}
		}
	}
}

// after: acknowledgements that reached a connection (before the crash mark) create obligations.
func (m *c21Model) after(op string, got map[string][]ref.Packet) {
	f := strings.Split(op, "|")
	switch f[0] {
	case "con":
		n := f[1]
		for _, p := range got[n] {
			if p.Type == ref.CONNACK && p.ReasonCode == 0 {
				m.up[n] = true
				switch f[2] {
				case "k", "c", "r":
					m.kind[n] = "persistent"
				default:
					m.kind[n] = "ephemeral"
				}
			}
		}
	case "sub":
		for _, p := range got[f[1]] {
			if p.Type == ref.SUBACK && len(p.ReasonCodes) == 1 && p.ReasonCodes[0] < 0x80 {
				m.subs[f[1]+"|"+f[2]] = true
			}
		}
	case "pub":
		for _, p := range got["P"] {
			if p.Type == ref.PUBACK && p.ReasonCode < 0x80 {
				if m.newRet != "" {
					m.ret[f[1]] = []string{m.newRet}
				}
				for _, c := range m.cand {
					m.infl[c] = true
				}
			}
		}
	}
}

type c21Run struct {
	s        *stScen
	m        *c21Model
	nPrev    int // writes before the last op
	n        int // writes in total
	marks    map[*world.Conn]int
	crashed  bool
	crashEv  string
	nowMs    int64
	stale    []explore.Violation
	counters map[string]int
}

// c21Exec executes hist on a fresh store with writes after cut dropped (cut < 0: none).
func c21Exec(store *stStore, deep bool, hist []string, cut int) *c21Run {
	r := &c21Run{m: newC21Model(), counters: map[string]int{}}
	live := map[string]*mqtt.Client{}
	known := map[*mqtt.Client]bool{}
	var s *stScen
	staleBefore, staleFor := "", 0
	s = stNewScen(store, func(w *stWrap) {
		w.CutAt = cut
		w.OnEstablish = func(cl *mqtt.Client) { // from here on cl owns the session of its id
			live[cl.ID] = cl
			known[cl] = true
		}
		w.After = func(wr *stWrite) {
			if staleFor != wr.N {
				return
			}
			staleFor = 0
			ev := strings.SplitN(wr.Event, "[", 2)[0]
			now := c21ClientRecord(w.Inner, wr.ID)
			switch {
			case now == staleBefore:
			case now == "":
				r.stale = append(r.stale, explore.Violation{Key: "c21:stale-delete:" + ev + ":client-record-of-live-session",
					Msg: fmt.Sprintf("write %s issued with the superseded client object of %q removed the live session's client record [%s]", wr, wr.ID, staleBefore)})
			default:
				r.stale = append(r.stale, explore.Violation{Key: "c21:stale-overwrite:" + ev + ":client-record-of-live-session",
					Msg: fmt.Sprintf("write %s issued with the superseded client object of %q replaced the live session's client record [%s] by the superseded connection's data [%s]", wr, wr.ID, staleBefore, now)})
			}
		}
		w.OnWrite = func(wr *stWrite) {
			if cut >= 0 && wr.N == cut+1 && !r.crashed {
				r.crashed = true
				r.crashEv = wr.Event
				r.marks = map[*world.Conn]int{}
				for _, c := range s.W.Conns {
					r.marks[c] = len(c.Out)
				}
				r.nowMs = s.W.X.NowMillis()
			}
			if wr.Client == nil {
				return
			}
			if strings.HasPrefix(wr.Event, "OnSessionEstablished") {
				return
			}
			lv := live[wr.ID]
			if cut >= 0 || lv == nil || lv == wr.Client || !known[wr.Client] {
				return
			}
			// a write issued for a superseded session
			r.counters["writes_by_superseded_client"]++
			if strings.HasPrefix(wr.Event, "OnDisconnect") || strings.HasPrefix(wr.Event, "OnWillSent") {
				staleBefore = c21ClientRecord(s.Wrap.Inner, wr.ID)
				staleFor = wr.N
			}
			ev := wr.Event
			if i := strings.IndexByte(ev, '['); i >= 0 {
				ev = ev[:i]
			}
			for _, k := range wr.Keys {
				parts := strings.SplitN(k, "/", 2)
				switch {
				case wr.Kind == "del" && parts[0] == "inflight":
					var pid uint16
					fmt.Sscan(k[strings.LastIndexByte(k, '/')+1:], &pid)
					if _, ok := lv.State.Inflight.Get(pid); ok {
						r.stale = append(r.stale, explore.Violation{Key: "c21:stale-delete:" + ev + ":inflight-of-live-session",
							Msg: fmt.Sprintf("write %s issued with the superseded client object of %q deletes in-flight id %d, which the live session holds", wr, wr.ID, pid)})
					}
				case wr.Kind == "del" && parts[0] == "sub":
					filter := strings.TrimPrefix(k, "sub/"+wr.ID+"/")
					if _, ok := lv.State.Subscriptions.Get(filter); ok {
						r.stale = append(r.stale, explore.Violation{Key: "c21:stale-delete:" + ev + ":subscription-of-live-session",
							Msg: fmt.Sprintf("write %s issued with the superseded client object of %q deletes subscription %q, which the live session holds", wr, wr.ID, filter)})
					}
				}
			}
		}
	})
	r.s = s
	s.dial("P", "x")
	seen := map[*world.Client]int{}
	offs := map[*world.Client]int{}
	owner := map[*world.Client]string{}
	collect := func() map[string][]ref.Packet {
		for n, cl := range s.Cl {
			owner[cl] = n
		}
		got := map[string][]ref.Packet{}
		for _, cl := range s.All {
			cl.Poll()
			for i := seen[cl]; i < len(cl.Recv); i++ {
				offs[cl] += len(cl.Raw[i])
				if r.crashed {
					if mark, ok := r.marks[cl.C]; !ok || offs[cl] > mark {
						continue
					}
				}
				got[owner[cl]] = append(got[owner[cl]], cl.Recv[i])
			}
			seen[cl] = len(cl.Recv)
		}
		return got
	}
	collect()
	for i, op := range hist {
		s.Step = i
		s.last = i == len(hist)-1
		s.logf("--- op %d: %s", i, op)
		if s.last {
			r.nPrev = len(s.Wrap.Log)
		}
		r.m.before(op, s)
		s.apply(op)
		r.m.after(op, collect())
		if r.crashed {
			break
		}
	}
	r.n = len(s.Wrap.Log)
	if !r.crashed {
		r.nowMs = s.W.X.NowMillis()
		r.crashEv = "end-of-operation"
	}
	// stale overwrite of the client record (back ends that rewrite the record in OnDisconnect)
	return r
}

// c21ClientRecord reads the stored client record of id (normalised text, "" if absent).
func c21ClientRecord(h mqtt.Hook, id string) string {
	cls, _ := h.StoredClients()
	for _, c := range cls {
		if c.ID == id {
			return strings.TrimSpace(stLine(stFlatOf(c)))
		}
	}
	return ""
}

// c21Prefix is the fixed start of every history of a menu.
func c21Prefix(sc string) []string {
	if sc == "quota" {
		return []string{"con|A|r", "sub|A|c|o"}
	}
	return nil
}

func c21Next(sc string, deep bool, s *stScen) []string {
	var next []string
	add := func(ok bool, ops ...string) {
		if ok {
			next = append(next, ops...)
		}
	}
	d := 0
	if deep {
		d = 1
	}
	if sc == "quota" {
		add(s.Pubs < 3+d, "pub|c|0|0")
		add(s.Up["A"] && len(s.Pend["A"]) > 0, "ack|A")
		add(s.Up["A"] && s.NDisc < 1+d, "drop|A")
		add((!s.Up["A"] || deep) && s.Conns["A"] < 2+d, "con|A|r", "con|A|k")
		add(deep && s.Ticks < 1, "tick")
		return next
	}
	add(s.Conns["A"] < 2+d, "con|A|k", "con|A|c", "con|A|n")
	add(s.Up["A"] && s.NDisc < 1+d, "dis|A", "drop|A")
	add(s.Up["A"] && s.NSub < 1+d, "sub|A|c|o")
	add(s.Up["A"] && s.NUns < 1, "unsub|A|c")
	add(s.Pubs < 2, "pub|c|0|0", "pub|c|1|0", "pub|c|1|clr")
	add(s.Up["A"] && len(s.Pend["A"]) > 0, "ack|A")
	add(s.Ticks < 1, "tick")
	return next
}

// c21Crash evaluates boundary k of hist.
func c21Crash(be string, deep bool, hist []string, k int, opKind string) (viol []explore.Violation, counters map[string]int, trace []string) {
	store := stNewStore(be)
	defer store.Destroy()
	r := c21Exec(store, deep, hist, k)
	s := r.s
	counters = map[string]int{}
	s.logf("=== CRASH after storage write %d (next, dropped: %s) at t=%dms; write log: %v", k, r.crashEv, r.nowMs, s.Wrap.Log)
	s.logf("acknowledged-state model: subscriptions=%v retained=%v in-flight=%v session kinds=%v classes=%v", explore.SortedKeys(r.m.subs), r.m.ret, explore.SortedKeys(r.m.infl), r.m.kind, r.m.class)
	viol = append(viol, runtimeViolations(s.W)...)
	// what the dying broker itself still holds in memory (used only to name the shape of a
	// loss: a message the live broker had already forgotten was not lost by the crash)
	mem := map[string]bool{}
	for id, cl := range s.W.S.Clients.GetAll() {
		for _, pk := range cl.State.Inflight.GetAll(false) {
			mem[id+"|"+string(pk.Payload)] = true
		}
	}
	s.W.End()
	s.Wrap.Off = true
	stStop(s.Wrap.Inner) // the dead process's handle on the store goes away; nothing is written

	h2, wrap2 := stStart(store, r.nowMs, nil)
	h2.last = true
	h2.Trace = s.Trace
	after := stSessionState(h2.W.S, h2.W.Now())
	h2.logf("=== restarted; state: %s", after)
	add := func(key, msg string) {
		viol = append(viol, explore.Violation{Key: key + "@" + be, Msg: fmt.Sprintf("[%s, history %v, crash after write %d, before %s] %s", be, hist, k, r.crashEv, msg)})
	}
	where := opKind + ":crash-before-" + strings.SplitN(r.crashEv, "[", 2)[0]
	m := r.m
	// sessions that are connected and ephemeral end with the crash
	for n, kd := range m.kind {
		if kd == "ephemeral" {
			m.endSession(n, "clean-session")
		}
	}
	// (a)
	for _, key := range explore.SortedKeys(m.subs) {
		counters["obligations_checked"]++
		n := stOwner(key)
		ik := stClients[n].ID + "|" + key[len(n)+1:]
		if _, ok := after.Index[ik]; !ok {
			shape := where
			if _, ok := after.Sessions[stClients[n].ID]; !ok {
				shape = "session-not-restored"
			}
			add("c21:lost:subscription:"+shape, fmt.Sprintf("subscription %s was acknowledged (SUBACK) before the crash and not removed, but is absent after the restart", ik))
		}
	}
	for _, t := range sortedMapKeys(m.ret) {
		if m.ret[t] == nil {
			continue
		}
		counters["obligations_checked"]++
		have, ok := after.Retained[t]
		good := false
		for _, p := range m.ret[t] {
			good = good || (ok && have["Payload"] == fmt.Sprintf("%q", p))
		}
		if !good {
			add("c21:lost:retained:"+where, fmt.Sprintf("retained message on %q with payload in %v was acknowledged before the crash and not cleared, after the restart the broker has %v", t, m.ret[t], have))
		}
	}
	for _, key := range explore.SortedKeys(m.infl) {
		counters["obligations_checked"]++
		n := stOwner(key)
		id, payload := stClients[n].ID, key[len(n)+1:]
		if m.held[key] {
			counters["held_back_obligations_checked"]++
		}
		found := false
		for k2, it := range after.Inflight {
			if stOwner(k2) == id && it["Payload"] == fmt.Sprintf("%q", payload) {
				found = true
			}
		}
		if !found {
			shape, note := where, ""
			zero := false
			for k2 := range after.Inflight {
				zero = zero || (stOwner(k2) == id && strings.HasSuffix(k2, "|0"))
			}
			if _, ok := after.Sessions[id]; !ok {
				shape = "session-not-restored"
			} else if zero {
				shape = "restored-under-packet-id-0"
			} else if !mem[id+"|"+payload] {
				// the broker had dropped the message from the session's in-flight set before it
				// died (its store record, if one was left behind, was overwritten or deleted
				// later): the crash point is not part of the shape
				shape = "forgotten-by-live-broker-before-crash"
				note = "; the broker that died did not hold the message in memory any more either"
			} else if m.held[key] && !(r.crashed && opKind == "pub" && payload == fmt.Sprintf("m%d", s.Pubs)) {
				// not the window between the publisher's PUBACK and the store write inside the
				// publish operation of this very message (that window is the same for a
				// message that is sent at once and keeps its key)
				shape += ":held-back-behind-receive-maximum"
			}
			add("c21:lost:inflight:"+shape, fmt.Sprintf("message %q was acknowledged to its publisher while the persistent session %q held an acknowledged QoS 1 subscription, the session has not acknowledged it, but no in-flight message for it exists after the restart%s (sessions after restart: %v; in-flight after restart: %v)", payload, id, note, explore.SortedKeys(after.Sessions), after.Inflight))
		}
	}
	// (b)
	for _, n := range []string{"A"} {
		stDial(h2, n, stConnectPacket(n, "c"), true)
	}
	stDial(h2, "Z", world.ConnectPacket("zz", 5, true), true)
	for i, t := range []string{"c", "b:c", "n"} {
		h2.do("Z", ref.Packet{Type: ref.PUBLISH, Topic: t, Qos: 1, PacketID: uint16(910 + i), Payload: []byte("probe-" + t)})
	}
	for _, n := range []string{"A"} {
		counters["clean_start_probes"]++
		got := pubsOf(h2.poll(n))
		if len(got) == 0 {
			continue
		}
		cls := m.class[n]
		if cls == "" {
			counters["clean_start_deliveries_outside_property"]++
			continue
		}
		shape := "subscription-without-session-record"
		if _, ok := after.Sessions[stClients[n].ID]; ok {
			shape = "subscription-with-session-record"
		}
		add("c21:resurrected:"+cls+":"+shape, fmt.Sprintf("client %q connected with Clean Start 1 after the restart and received %v although it has no subscription (its earlier session: %s)", stClients[n].ID, got, cls))
	}
	viol = append(viol, runtimeViolations(h2.W)...)
	stShutdown(h2, wrap2)
	h2.W.End()
	return viol, counters, h2.Trace
}

func sortedMapKeys(m map[string][]string) []string {
	var out []string
	for k := range m {
		out = append(out, k)
	}
	sort.Strings(out)
	return out
}

func c21RunFn(arg string) explore.HistFn {
	be := c20Arg(arg, "be", "bolt")
	deep := strings.Contains(arg, "deep")
	sc := c20Arg(arg, "sc", "")
	return func(suffix []string) explore.HistResult {
		hist := append(append([]string{}, c21Prefix(sc)...), suffix...)
		store := stNewStore(be)
		base := c21Exec(store, deep, hist, -1)
		s := base.s
		s.H.last = true
		// the store is part of the state: equal brokers on different store contents differ after a crash
		key := world.Canon(s.W.S) + s.modelKey() + "|store:" + stRead(s.Wrap.Inner).String()
		next := c21Next(sc, deep, s)
		viol := append([]explore.Violation{}, s.Viol...)
		viol = append(viol, runtimeViolations(s.W)...)
		// (c) is judged on the complete run, for the writes of the last operation
		for _, v := range base.stale {
			v.Key += "@" + be
			v.Msg = fmt.Sprintf("[%s, history %v] %s", be, hist, v.Msg)
			viol = append(viol, v)
		}
		logText := fmt.Sprint(s.Wrap.Log)
		trace := append(s.Trace, "complete run, write log: "+logText)
		counters := map[string]int{"histories": 1, "storage_writes": base.n, "writes_by_superseded_client": base.counters["writes_by_superseded_client"]}
		s.W.End()
		s.Wrap.Off = true
		stStop(s.Wrap.Inner)
		store.Destroy()
		opKind := "start"
		if len(hist) > 0 {
			opKind = strings.SplitN(hist[len(hist)-1], "|", 2)[0]
		}
		for k := base.nPrev; k <= base.n; k++ {
			v, cnt, tr := c21Crash(be, deep, hist, k, opKind)
			counters["evaluations"]++
			for kk, n := range cnt {
				counters[kk] += n
			}
			for i := range v {
				v[i].Trace = tr
			}
			viol = append(viol, v...)
		}
		seen := map[string]bool{}
		var out []explore.Violation
		for _, v := range viol {
			if !seen[v.Key] {
				seen[v.Key] = true
				if v.Trace == nil {
					v.Trace = trace
				}
				out = append(out, v)
			}
		}
		return explore.HistResult{Key: key, Next: next, Viol: out, Trace: trace, Counters: counters}
	}
}

func init() {
	explore.RegisterBFS("c21", c21RunFn)
	explore.Register("C21", func(c *explore.Ctx) {
		c.Rep.Level = "fault_enumeration"
		c.Rep.Assumption("one operation at a time, run to quiescence under the deterministic default schedule; a crash is the loss of every storage write after the k-th (each mutating hook call is one write, writes are atomic and durable in order); the crash instant is the moment write k+1 is issued, and only broker output handed to a connection before that instant counts as acknowledged")
		c.Rep.Assumption("the restarted broker starts at the crash instant (no downtime); back ends as in C20 (bolt NoSync, badger small tables, pebble in-memory FS, redis = miniredis)")
		backends := []string{"bolt", "pebble"}
		per := 30 * time.Second
		suffix := ""
		depth := 4
		if !c.Quick() {
			backends = []string{"bolt", "pebble", "redis", "badger"}
			per = 170 * time.Second
			suffix = ",deep"
			depth = 0
		}
		totals := map[string]int64{}
		distinct := int64(0)
		// the small decisive menu first: it is exhausted within its bounds long before its budget
		for _, menu := range []string{",sc=quota", ""} {
			for _, be := range backends {
				d, budget := depth, per
				if menu != "" {
					budget = per / 2
					if c.Quick() {
						d = 5
					}
				}
				st := explore.RunBFS(c, "c21", "be="+be+menu+suffix, d, budget)
				for k, v := range st.Counters {
					totals[k] += v
				}
				distinct += st.States
			}
		}
		if totals["held_back_obligations_checked"] == 0 && fullRun() {
			c.Rep.Add(explore.Violation{Key: "internal:vacuous:c21-quota-no-held-back-obligation", Msg: "the Receive Maximum menu never crashed a broker that owed a held-back message to a persistent session"})
		}
		for k, v := range totals {
			if k != "evaluations" {
				c.Rep.Count(k, v)
			}
		}
		c.Rep.Count("evaluations", totals["evaluations"])
		c.Rep.Count("distinct_nontrivial", distinct)
		c.Rep.Set("rule", "evaluations = (history, write boundary) pairs re-executed with a crash and restarted; distinct_nontrivial = distinct broker states (canonical dump + pools) whose last operation's boundaries were crashed, summed over back ends")
		c.Rep.Set("backends", backends)
	})
}
