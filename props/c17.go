package props

import (
	"fmt"
	"strconv"
	"strings"
	"time"

	mqtt "github.com/mochi-mqtt/server/v2"

	"verif/explore"
	"verif/ref"
	"verif/world"
)

// C17: authorisation is enforced on every route a message can take.
//
// E2 scenario "c17". The first op of every history selects the configuration:
//   cfg:<bits>:<obscure>:<ver>   bits = 4 characters 0/1 for the permission relation
//        (a,x,write) (a,w,write) (b,x,read) (b,w,read); every other (client, topic, access) triple is
//        allowed by the ACL hook (in particular the hook itself allows writes to $SYS/... so that the
//        broker's own refusal is what is observed). obscure = Compatibilities.ObscureNotAuthorized,
//        ver = protocol version of a and b (4 | 5).
// Clients: a = writer (publishes, has a will), b = reader, c = observer with every permission,
// subscribed to '#' and '$SYS/#' from the start. Further ops (pools in brackets):
//   ca:<will>       [2] a connects (clean); will in {none, w1 (retained), sysw1 ($SYS/w retained), wild (w/#); deep: w0}
//   da              [2] a's network connection drops (will becomes due)
//   pa:<topic>:<retain>:<qos>  [P] a publishes; topic in {x, w, $SYS/x}
//   sb:<filter>     [S] b subscribes QoS0; filter in {x, w, #}
//   rb              [1] b drops and reconnects resuming its session
// plus a total budget of N ops per history (quick 4, thorough 5; arg "wide" adds the non-retained / QoS variants of ca and pa; arg "full" = 64 configurations instead of 32); b and c subscribe at QoS 0 so that
// unacknowledged deliveries do not multiply the states.
// Every message carries a unique payload tag, so each delivery is attributed to one publish
// or one will. After the last op of a history (after the state key is taken) a fresh
// all-permission client reads out the retained store with '#' and '$SYS/#'.
//
// Reference rules (all must-not, from the property statement):
//   R1 a message written by a on topic T is never delivered to anybody nor retained when (a,T,write)
//      is denied - including a's will and retained copies replayed later;
//   R2 nothing a client writes is delivered or retained on a topic starting with $SYS;
//   R3 b never receives a message on T when (b,T,read) is denied (live or retained replay, exact or
//      wildcard subscription);
//   R4 SUBSCRIBE of a denied exact filter is answered 0x87 (v5), 0x80 when obscured or v3/v4;
//   R5 a CONNECT whose will topic is not a valid topic name (wildcard) is not accepted and such a
//      will is never published.

type c17Cfg struct {
	aw      map[string]bool // a's write permission per topic (only x, w listed)
	br      map[string]bool // b's read permission per topic
	obscure bool
	ver     byte
}

func c17Parse(op string) c17Cfg {
	f := fields(op)
	b := f[1]
	return c17Cfg{
		aw:      map[string]bool{"x": b[0] == '1', "w": b[1] == '1'},
		br:      map[string]bool{"x": b[2] == '1', "w": b[3] == '1'},
		obscure: f[2] == "1",
		ver:     byte(f[3][0] - '0'),
	}
}

func (c c17Cfg) mayWrite(topic string) bool {
	if v, ok := c.aw[topic]; ok {
		return v
	}
	return true
}

func (c c17Cfg) mayRead(topic string) bool {
	if v, ok := c.br[topic]; ok {
		return v
	}
	return true
}

type c17Msg struct {
	topic string
	will  bool
}

func c17Run(arg string) explore.HistFn {
	maxP, maxS, maxOps := 2, 2, 4
	wide := strings.Contains(arg, "wide")
	if i := strings.Index(arg, "n="); i >= 0 {
		maxOps, _ = strconv.Atoi(arg[i+2 : i+3])
	}
	var cfgs []string
	for bits := 0; bits < 16; bits++ {
		bs := fmt.Sprintf("%04b", bits)
		if strings.Contains(arg, "full") {
			for _, o := range []string{"0", "1"} {
				for _, v := range []string{"4", "5"} {
					cfgs = append(cfgs, "cfg:"+bs+":"+o+":"+v)
				}
			}
		} else {
			cfgs = append(cfgs, "cfg:"+bs+":0:5", "cfg:"+bs+":1:4")
		}
	}
	return func(hist []string) explore.HistResult {
		if len(hist) == 0 {
			return explore.HistResult{Key: "root:" + arg, Next: cfgs}
		}
		cfg := c17Parse(hist[0])
		h := newH(world.Config{
			Caps: func(c *mqtt.Capabilities) { c.Compatibilities.ObscureNotAuthorized = cfg.obscure },
			Hook: func(rh *world.RecHook) {
				rh.ACL = func(cl *mqtt.Client, topic string, write bool) bool {
					switch {
					case cl.ID == "a" && write:
						return cfg.mayWrite(topic)
					case cl.ID == "b" && !write:
						return cfg.mayRead(topic)
					}
					return true
				}
			},
		})
		counters := map[string]int{}
		count := func(k string) {
			if h.last {
				counters[k]++
			}
		}
		msgs := map[string]c17Msg{} // payload tag -> what was written
		aConns, aDrops, nPub, nSub, nRb := 0, 0, 0, 0, 0
		aOpen := false
		bConn := func(clean bool) ref.Packet {
			if cfg.ver == 5 {
				return v5connect("b", clean, 0, 60)
			}
			return world.ConnectPacket("b", cfg.ver, clean)
		}
		h.connect("c", world.ConnectPacket("c", 5, true))
		h.do("c", ref.Packet{Type: ref.SUBSCRIBE, PacketID: 1, Filters: []ref.Filter{{Filter: "#", Opts: 0}, {Filter: "$SYS/#", Opts: 0}}})
		h.connect("b", bConn(true))

		// judge one delivery
		judge := func(who string, p ref.Packet, route string) {
			tag := string(p.Payload)
			m, ok := msgs[tag]
			if !ok {
				h.violate("unattributable-delivery", "%s received %v which nobody published", who, p)
				return
			}
			kind := "publish"
			if m.will {
				kind = "will"
			}
			verb := "delivered"
			if route == "retained-store" || route == "retained-replay" {
				verb = "retained"
			}
			if p.Topic != m.topic {
				h.violate("topic-changed:"+kind, "%s received tag %q on %q but it was written to %q", who, tag, p.Topic, m.topic)
			}
			count("deliveries-judged")
			if m.will && strings.ContainsAny(m.topic, "+#") {
				h.violate("will:"+verb+"-on-wildcard-topic", "%s received a's will on invalid topic name %q (%s): %v", who, m.topic, route, p)
				return
			}
			if strings.HasPrefix(p.Topic, "$SYS") {
				h.violate(kind+":"+verb+"-on-$SYS-topic", "%s received client-written message %v on a $SYS topic (%s)", who, p, route)
				return
			}
			if !cfg.mayWrite(m.topic) {
				h.violate(kind+":"+verb+"-without-write-permission", "(a,%s,write) is denied but %s received %v (%s)", m.topic, who, p, route)
			}
			if who == "b" && !cfg.mayRead(p.Topic) {
				h.violate("read:delivered-without-read-permission:"+route, "(b,%s,read) is denied but b received %v", p.Topic, p)
			}
			if who == "b" && cfg.mayRead(p.Topic) && cfg.mayWrite(m.topic) {
				count("permitted-deliveries-to-b")
			}
		}
		sweep := func() {
			for _, who := range []string{"a", "b", "c"} {
				cl := h.Cl[who]
				if cl == nil {
					continue
				}
				for _, p := range pubsOf(h.poll(who)) {
					route := "live"
					if p.Retain && who != "c" {
						route = "retained-replay"
					}
					judge(who, p, route)
				}
			}
		}

		runHist(h, hist, func(op string) {
			f := fields(op)
			switch f[0] {
			case "cfg":
			case "ca":
				aConns++
				p := world.ConnectPacket("a", cfg.ver, true)
				tag := "wm" + strconv.Itoa(aConns)
				switch f[1] {
				case "w0", "w1":
					p.WillFlag, p.WillTopic, p.WillPayload, p.WillRetain = true, "w", []byte(tag), f[1] == "w1"
				case "sysw1":
					p.WillFlag, p.WillTopic, p.WillPayload, p.WillRetain = true, "$SYS/w", []byte(tag), true
				case "wild":
					p.WillFlag, p.WillTopic, p.WillPayload = true, "w/#", []byte(tag)
				}
				if p.WillFlag {
					msgs[tag] = c17Msg{topic: p.WillTopic, will: true}
				}
				got := h.connect("a", p)
				aOpen = len(got) > 0 && got[0].Type == ref.CONNACK && got[0].ReasonCode == 0 && !h.Cl["a"].Closed()
				if f[1] == "wild" {
					count("connects-with-wildcard-will-topic")
					if aOpen {
						h.violate("will:connect-accepted-with-wildcard-will-topic", "CONNECT with will topic %q accepted: %v", p.WillTopic, got)
					}
				}
			case "da":
				aDrops++
				h.Cl["a"].Drop()
				aOpen = false
				count("drops-of-a")
			case "pa":
				nPub++
				topic, retain, qos := f[1], f[2] == "1", byte(f[3][0]-'0')
				tag := "a" + strconv.Itoa(nPub)
				msgs[tag] = c17Msg{topic: topic}
				pk := pub(topic, tag, qos, 0)
				if qos > 0 {
					pk.PacketID = uint16(10 + nPub)
				}
				pk.Retain = retain
				h.do("a", pk)
				if !cfg.mayWrite(topic) {
					count("publishes-on-write-denied-topic")
				}
				if strings.HasPrefix(topic, "$SYS") {
					count("publishes-on-$SYS-topic")
				}
				if h.Cl["a"].Closed() {
					aOpen = false
				}
			case "sb":
				nSub++
				filter := f[1]
				got := h.do("b", ref.Packet{Type: ref.SUBSCRIBE, PacketID: uint16(20 + nSub), Filters: []ref.Filter{{Filter: filter, Opts: 0}}})
				if _, listed := cfg.br[filter]; listed && !cfg.mayRead(filter) {
					count("subscribes-to-denied-filter")
					want := byte(0x87)
					if cfg.obscure || cfg.ver < 5 {
						want = 0x80
					}
					var ack *ref.Packet
					for i := range got {
						if got[i].Type == ref.SUBACK {
							ack = &got[i]
						}
					}
					switch {
					case ack == nil && !h.Cl["b"].Closed():
						h.violate("suback:missing-for-denied-filter", "SUBSCRIBE %q by b: no SUBACK: %v", filter, got)
					case ack != nil && len(ack.ReasonCodes) == 1 && ack.ReasonCodes[0] < 0x80:
						h.violate("suback:denied-filter-granted", "SUBSCRIBE %q by b ((b,%s,read) denied) granted: %v", filter, filter, *ack)
					case ack != nil && (len(ack.ReasonCodes) != 1 || ack.ReasonCodes[0] != want):
						h.violate(fmt.Sprintf("suback:denied-filter-code-not-%#x", want), "SUBSCRIBE %q by b: codes %x, want %#x (obscure=%v ver=%d)", filter, ack.ReasonCodes, want, cfg.obscure, cfg.ver)
					}
				}
				// deliveries in got were consumed by do(): judge them here
				for _, p := range pubsOf(got) {
					route := "live"
					if p.Retain {
						route = "retained-replay"
					}
					judge("b", p, route)
				}
			case "rb":
				nRb++
				h.Cl["b"].Drop()
				got := h.connect("b", bConn(false))
				for _, p := range pubsOf(got) {
					judge("b", p, "live")
				}
			}
			sweep()
		})

		var next []string
		if len(hist)-1 < maxOps { // total op budget
			if aConns < 2 && !aOpen {
				next = append(next, "ca:none", "ca:w1", "ca:sysw1", "ca:wild")
				if wide {
					next = append(next, "ca:w0")
				}
			}
			if aOpen {
				if aDrops < 2 {
					next = append(next, "da")
				}
				if nPub < maxP {
					next = append(next, "pa:x:1:1", "pa:x:0:0", "pa:$SYS/x:1:1", "pa:w:1:1")
					if wide {
						next = append(next, "pa:x:0:1", "pa:x:1:0", "pa:$SYS/x:0:0", "pa:w:0:0")
					}
				}
			}
			if nSub < maxS && !h.Cl["b"].Closed() {
				next = append(next, "sb:x", "sb:w", "sb:#")
			}
			if nRb < 1 && nSub > 0 {
				next = append(next, "rb")
			}
		}
		key := h.W.State() + fmt.Sprintf("|%s|%d|%d,%d,%d,%d,%d|%v", hist[0], len(hist), aConns, aDrops, nPub, nSub, nRb, aOpen)
		// retained-store read-out by a fresh all-permission client (after the key: not part of the state)
		h.last = true
		t := h.W.Connect(world.ConnectPacket("t", 5, true))
		for _, p := range pubsOf(t.Do(ref.Packet{Type: ref.SUBSCRIBE, PacketID: 1, Filters: []ref.Filter{{Filter: "#", Opts: 1}, {Filter: "$SYS/#", Opts: 1}}})) {
			judge("t", p, "retained-store")
			counters["retained-store-entries-judged"]++
		}
		res := h.finish(key, next)
		res.Counters = counters
		return res
	}
}

func init() {
	explore.RegisterBFS("c17", c17Run)
	explore.Register("C17", func(c *explore.Ctx) {
		c.Rep.Level = "model_checking"
		c.Rep.Assumption("one operation at a time, broker run to quiescence under the deterministic default schedule (sequential histories)")
		c.Rep.Assumption("permission relation implemented by a test ACL hook over {a,b} x {x,w} x {read,write}: all 16 settings of the four observable bits, every other triple allowed")
		c.Rep.Assumption("state = reflective dump of *Server plus pool counters; the retained-store read-out after the last op is not part of the state")
		if c.Quick() {
			explore.RunBFS(c, "c17", "n=4", 0, 70*time.Second)
		} else {
			explore.RunBFS(c, "c17", "full,n=5", 0, 6*time.Minute)
			explore.RunBFS(c, "c17", "wide,n=5", 0, 5*time.Minute)
		}
	})
}
