package props

import (
	"fmt"
	"strconv"
	"strings"
	"time"

	mqtt "github.com/mochi-mqtt/server/v2"

	"verif/explore"
	"verif/ref"
	"verif/world"
)

// C17: authorisation is enforced on every route a message can take.
//
// E2 scenario "c17". The first op of every history selects the configuration:
//   cfg:<bits>:<obscure>:<ver>   bits = 5 characters 0/1 for the permission relation
//        (a,x,write) (a,w,write) (b,x,read) (b,w,read) (b,'+',read); every other (client, topic, access)
//        triple is allowed by the ACL hook (in particular the hook itself allows writes to $SYS/... so that
//        the broker's own refusal is what is observed). The fifth entry is an entry for a wildcard FILTER
//        STRING: the broker consults the hook with the filter at SUBSCRIBE time and with the concrete topic
//        at delivery time, so (b,'+',read) denied with (b,x,read) allowed is a refused subscription whose
//        matching topics are readable (quick: the fifth bit is always 0 = denied; "full": both).
//        obscure = Compatibilities.ObscureNotAuthorized, ver = protocol version of a and b (4 | 5).
// Clients: a = writer (publishes, has a will), b = reader, c = observer with every permission,
// subscribed to '#' and '$SYS/#' from the start. Further ops (pools in brackets):
//   ca:<will>       [2] a connects (clean); will in {none, w1 (retained), sysw1 ($SYS/w retained), wild (w/#); deep: w0;
//                       v5 only: dw1, dsysw1 = the same wills with Will Delay Interval 5 s and Session Expiry 60 s}
//   da              [2] a's network connection drops (will becomes due, or is queued for delayed sending)
//   tk              [1] 10 s of virtual time pass and the housekeeping jobs run once (enabled while a delayed
//                       will of a is pending: a dropped and has not reconnected)
//   pa:<topic>:<retain>:<qos>  [P] a publishes; topic in {x, w, $SYS/x}
//   pa:<topic>:<retain>:<qos>:r  [P, v5] the same publish carrying Topic Alias 1 as well (binds the alias on a's current connection)
//   pa::<retain>:<qos>:u       [1, v5] alias-only publish: empty Topic Name and Topic Alias 1; enabled once a publish of the
//                       current connection carried the alias. The model keeps two candidate bindings: the topic of the last
//                       publish that carried the alias (the binding of MQTT 3.3.2.3.4 read literally) and the topic of the
//                       last such publish that the broker had to accept (valid, not $SYS, write permitted). Which of the two
//                       the broker resolves the alias to - or whether it treats the alias as unbound and disconnects - is
//                       not judged; what is judged is the topic the message comes out on (rules R1/R2, keys alias-publish:...)
//   sb:<filters>    [S] b subscribes QoS0; filters in {x, w, #, +; wide: the two-filter packets "+,w" and "x,+"}
//   rb              [1] b drops and reconnects resuming its session
// plus a total budget of N ops per history (quick 4, thorough 5; arg "wide" adds the non-retained / QoS variants of ca and pa; arg "full" = 64 configurations instead of 32); b and c subscribe at QoS 0 so that
// unacknowledged deliveries do not multiply the states.
// Every message carries a unique payload tag, so each delivery is attributed to one publish
// or one will. After the last op of a history (after the state key is taken) a fresh
// all-permission client reads out the retained store with '#' and '$SYS/#'.
//
// Reference rules (all must-not, from the property statement):
//   R1 a message written by a on topic T is never delivered to anybody nor retained when (a,T,write)
//      is denied - including a's will and retained copies replayed later;
//   R2 nothing a client writes is delivered or retained on a topic starting with $SYS;
//   R3 b never receives a message on T when (b,T,read) is denied (live or retained replay, exact or
//      wildcard subscription);
//   R4 SUBSCRIBE of a denied filter (exact or wildcard filter string) is answered 0x87 (v5), 0x80 when
//      obscured or v3/v4, per filter of the packet;
//   R4b a refused subscription never delivers: b never receives a message on a topic that matches none of
//      the filters b was granted (SUBACK code < 0x80) but matches a filter b was refused (code >= 0x80) -
//      neither as retained replay right after the failing SUBACK nor live later;
//   R5 a CONNECT whose will topic is not a valid topic name (wildcard) is not accepted and such a
//      will is never published;
//   R1/R2 hold for wills sent after the Will Delay Interval exactly as for immediate ones (keys delayed-will:...).

type c17Cfg struct {
	aw      map[string]bool // a's write permission per topic (only x, w listed)
	br      map[string]bool // b's read permission per topic
	obscure bool
	ver     byte
}

func c17Parse(op string) c17Cfg {
	f := fields(op)
	b := f[1]
	return c17Cfg{
		aw:      map[string]bool{"x": b[0] == '1', "w": b[1] == '1'},
		br:      map[string]bool{"x": b[2] == '1', "w": b[3] == '1', "+": b[4] == '1'},
		obscure: f[2] == "1",
		ver:     byte(f[3][0] - '0'),
	}
}

func (c c17Cfg) mayWrite(topic string) bool {
	if v, ok := c.aw[topic]; ok {
		return v
	}
	return true
}

func (c c17Cfg) mayRead(topic string) bool {
	if v, ok := c.br[topic]; ok {
		return v
	}
	return true
}

type c17Msg struct {
	topic   string
	will    bool
	delayed bool   // will with Will Delay Interval > 0
	alias   bool   // alias-only publish (empty topic name): topic = literal binding, alt = last binding the broker had to accept
	alt     string // "" = none
}

func c17Run(arg string) explore.HistFn {
	maxP, maxS, maxOps := 2, 2, 4
	wide := strings.Contains(arg, "wide")
	if i := strings.Index(arg, "n="); i >= 0 {
		maxOps, _ = strconv.Atoi(arg[i+2 : i+3])
	}
	var cfgs []string
	for bits := 0; bits < 16; bits++ {
		bs := fmt.Sprintf("%04b", bits)
		if strings.Contains(arg, "full") {
			for _, plus := range []string{"0", "1"} {
				for _, o := range []string{"0", "1"} {
					for _, v := range []string{"4", "5"} {
						cfgs = append(cfgs, "cfg:"+bs+plus+":"+o+":"+v)
					}
				}
			}
		} else {
			cfgs = append(cfgs, "cfg:"+bs+"0:0:5", "cfg:"+bs+"0:1:4")
		}
	}
	return func(hist []string) explore.HistResult {
		if len(hist) == 0 {
			return explore.HistResult{Key: "root:" + arg, Next: cfgs}
		}
		cfg := c17Parse(hist[0])
		h := newH(world.Config{
			Caps: func(c *mqtt.Capabilities) { c.Compatibilities.ObscureNotAuthorized = cfg.obscure },
			Hook: func(rh *world.RecHook) {
				rh.ACL = func(cl *mqtt.Client, topic string, write bool) bool {
					switch {
					case cl.ID == "a" && write:
						return cfg.mayWrite(topic)
					case cl.ID == "b" && !write:
						return cfg.mayRead(topic)
					}
					return true
				}
			},
		})
		counters := map[string]int{}
		count := func(k string) {
			if h.last {
				counters[k]++
			}
		}
		msgs := map[string]c17Msg{} // payload tag -> what was written
		aConns, aDrops, nPub, nSub, nRb, nTk, nAliasOnly := 0, 0, 0, 0, 0, 0, 0
		aliasLit, aliasAcc := "", "" // Topic Alias 1 on a's current connection: topic of the last publish carrying it / of the last such publish the broker had to accept
		permissible := func(topic string) bool {
			return cfg.mayWrite(topic) && !strings.HasPrefix(topic, "$SYS") && ref.ValidPublishTopic(topic)
		}
		aOpen := false
		aDelayed := false                  // a's current connection carries a will with a Will Delay Interval
		pendingDelay := false              // a dropped with such a will and has not reconnected; the delay has not passed yet
		granted := map[string]bool{}       // filters b holds (SUBACK code < 0x80); b's session is never discarded
		refused := map[string]bool{}       // filters b was refused (SUBACK code >= 0x80)
		mayBeRetained := map[string]bool{} // topics a legitimately stored a retained message on (counter only)
		bConn := func(clean bool) ref.Packet {
			if cfg.ver == 5 {
				return v5connect("b", clean, 0, 60)
			}
			return world.ConnectPacket("b", cfg.ver, clean)
		}
		h.connect("c", world.ConnectPacket("c", 5, true))
		h.do("c", ref.Packet{Type: ref.SUBSCRIBE, PacketID: 1, Filters: []ref.Filter{{Filter: "#", Opts: 0}, {Filter: "$SYS/#", Opts: 0}}})
		h.connect("b", bConn(true))

		// judge one delivery
		judge := func(who string, p ref.Packet, route string) {
			tag := string(p.Payload)
			m, ok := msgs[tag]
			if !ok {
				h.violate("unattributable-delivery", "%s received %v which nobody published", who, p)
				return
			}
			kind := "publish"
			if m.alias {
				kind = "alias-publish"
			}
			if m.will {
				kind = "will"
			}
			if m.delayed {
				kind = "delayed-will"
			}
			verb := "delivered"
			if route == "retained-store" || route == "retained-replay" {
				verb = "retained"
			}
			written := m.topic // the topic the write permission is judged on
			if m.alias && p.Topic != m.topic && m.alt != "" && p.Topic == m.alt {
				written = m.alt // the alias resolved to the last accepted binding
			}
			if p.Topic != written {
				h.violate("topic-changed:"+kind, "%s received tag %q on %q but it was written to %q (alt %q)", who, tag, p.Topic, m.topic, m.alt)
			}
			count("deliveries-judged")
			if m.will && strings.ContainsAny(m.topic, "+#") {
				h.violate(kind+":"+verb+"-on-wildcard-topic", "%s received a's will on invalid topic name %q (%s): %v", who, m.topic, route, p)
				return
			}
			if strings.HasPrefix(p.Topic, "$SYS") {
				h.violate(kind+":"+verb+"-on-$SYS-topic", "%s received client-written message %v on a $SYS topic (%s)", who, p, route)
				return
			}
			if !cfg.mayWrite(written) {
				h.violate(kind+":"+verb+"-without-write-permission", "(a,%s,write) is denied but %s received %v (%s)", written, who, p, route)
			} else if m.alias {
				count("alias-only-publishes-delivered-on-permitted-topic")
			}
			if who == "b" && !cfg.mayRead(p.Topic) {
				h.violate("read:delivered-without-read-permission:"+route, "(b,%s,read) is denied but b received %v", p.Topic, p)
			}
			if who == "b" {
				held, deniedFilter := false, ""
				for f := range granted {
					held = held || ref.Match(f, p.Topic)
				}
				for _, f := range sortedStrings(keysOf(refused)) {
					if !granted[f] && ref.Match(f, p.Topic) && deniedFilter == "" {
						deniedFilter = f
					}
				}
				if !held && deniedFilter != "" {
					h.violate("suback:refused-subscription-delivers:"+route, "b's SUBSCRIBE %q was refused and b holds no granted filter matching %q, but b received %v", deniedFilter, p.Topic, p)
				}
			}
			if who == "b" && cfg.mayRead(p.Topic) && cfg.mayWrite(written) {
				count("permitted-deliveries-to-b")
			}
		}
		sweep := func() {
			for _, who := range []string{"a", "b", "c"} {
				cl := h.Cl[who]
				if cl == nil {
					continue
				}
				for _, p := range pubsOf(h.poll(who)) {
					route := "live"
					if p.Retain && who != "c" {
						route = "retained-replay"
					}
					judge(who, p, route)
				}
			}
		}

		runHist(h, hist, func(op string) {
			f := fields(op)
			switch f[0] {
			case "cfg":
			case "ca":
				aConns++
				p := world.ConnectPacket("a", cfg.ver, true)
				tag := "wm" + strconv.Itoa(aConns)
				switch f[1] {
				case "w0", "w1":
					p.WillFlag, p.WillTopic, p.WillPayload, p.WillRetain = true, "w", []byte(tag), f[1] == "w1"
				case "sysw1":
					p.WillFlag, p.WillTopic, p.WillPayload, p.WillRetain = true, "$SYS/w", []byte(tag), true
				case "dw1", "dsysw1": // v5: the will is sent 5 s after the drop unless the session is resumed or ends
					p = v5connect("a", true, 0, 60)
					p.WillFlag, p.WillTopic, p.WillPayload, p.WillRetain = true, "w", []byte(tag), true
					if f[1] == "dsysw1" {
						p.WillTopic = "$SYS/w"
					}
					p.WillProps = ref.Props{{ID: ref.PWillDelay, Num: 5}}
				case "wild":
					p.WillFlag, p.WillTopic, p.WillPayload = true, "w/#", []byte(tag)
				}
				aDelayed = len(p.WillProps) > 0
				pendingDelay = false
				aliasLit, aliasAcc = "", "" // alias mappings do not outlive the network connection [MQTT-3.3.2-7]
				if p.WillFlag {
					msgs[tag] = c17Msg{topic: p.WillTopic, will: true, delayed: aDelayed}
				}
				got := h.connect("a", p)
				aOpen = len(got) > 0 && got[0].Type == ref.CONNACK && got[0].ReasonCode == 0 && !h.Cl["a"].Closed()
				if aDelayed && aOpen {
					count("connects-with-delayed-will")
				}
				if f[1] == "wild" {
					count("connects-with-wildcard-will-topic")
					if aOpen {
						h.violate("will:connect-accepted-with-wildcard-will-topic", "CONNECT with will topic %q accepted: %v", p.WillTopic, got)
					}
				}
			case "da":
				aDrops++
				h.Cl["a"].Drop()
				pendingDelay = aOpen && aDelayed
				aOpen = false
				count("drops-of-a")
			case "tk":
				nTk++
				h.W.Tick(10000)
				h.W.Housekeep()
				h.logf("10 s pass, housekeeping")
				if pendingDelay {
					count("will-delays-elapsed")
					if m := msgs["wm"+strconv.Itoa(aConns)]; !cfg.mayWrite(m.topic) || strings.HasPrefix(m.topic, "$SYS") {
						count("will-delays-elapsed-on-forbidden-topic")
					}
				}
				pendingDelay = false
			case "pa":
				topic, retain, qos := f[1], f[2] == "1", byte(f[3][0]-'0')
				mode := ""
				if len(f) > 4 {
					mode = f[4]
				}
				if mode == "u" {
					nAliasOnly++
				} else {
					nPub++
				}
				tag := "a" + strconv.Itoa(nPub) + "u" + strconv.Itoa(nAliasOnly)
				msgs[tag] = c17Msg{topic: topic}
				pk := pub(topic, tag, qos, 0)
				if qos > 0 {
					pk.PacketID = uint16(10 + nPub + 5*nAliasOnly)
				}
				pk.Retain = retain
				switch mode {
				case "r":
					pk.Props = ref.Props{{ID: ref.PTopicAlias, Num: 1}}
					aliasLit = topic
					if permissible(topic) {
						aliasAcc = topic
					}
					count("publishes-binding-a-topic-alias")
					if !permissible(topic) {
						count("publishes-binding-a-topic-alias-to-forbidden-topic")
					}
				case "u":
					pk.Props = ref.Props{{ID: ref.PTopicAlias, Num: 1}}
					topic = aliasLit
					msgs[tag] = c17Msg{topic: aliasLit, alias: true, alt: aliasAcc}
					count("alias-only-publishes")
					if !permissible(aliasLit) {
						count("alias-only-publishes-after-refused-binding")
						if aliasAcc != "" {
							count("alias-only-publishes-after-refused-rebinding")
						}
					}
				}
				h.do("a", pk)
				if mode == "u" && aliasAcc != "" && aliasAcc != aliasLit {
					topic = aliasAcc // counters below: the topic the message may legitimately have been stored on
				}
				if !cfg.mayWrite(topic) {
					count("publishes-on-write-denied-topic")
				} else if retain && !strings.HasPrefix(topic, "$SYS") {
					mayBeRetained[topic] = true
				}
				if strings.HasPrefix(topic, "$SYS") {
					count("publishes-on-$SYS-topic")
				}
				if h.Cl["a"].Closed() {
					aOpen = false
				}
			case "sb":
				nSub++
				filters := strings.Split(f[1], ",")
				var fl []ref.Filter
				for _, filter := range filters {
					fl = append(fl, ref.Filter{Filter: filter, Opts: 0})
				}
				got := h.do("b", ref.Packet{Type: ref.SUBSCRIBE, PacketID: uint16(20 + nSub), Filters: fl})
				var ack *ref.Packet
				for i := range got {
					if got[i].Type == ref.SUBACK {
						ack = &got[i]
					}
				}
				if ack != nil && len(ack.ReasonCodes) == len(filters) {
					for i, filter := range filters {
						if ack.ReasonCodes[i] < 0x80 {
							granted[filter] = true
							continue
						}
						refused[filter] = true
						count("subscribes-refused")
						for t := range mayBeRetained {
							if ref.Match(filter, t) && cfg.mayRead(t) && !granted[filter] {
								count("subscribes-refused-with-readable-retained-match")
								break
							}
						}
					}
				}
				for i, filter := range filters {
					if _, listed := cfg.br[filter]; !listed || cfg.mayRead(filter) {
						continue
					}
					count("subscribes-to-denied-filter")
					if strings.ContainsAny(filter, "+#") {
						count("subscribes-to-denied-wildcard-filter")
					}
					want := byte(0x87)
					if cfg.obscure || cfg.ver < 5 {
						want = 0x80
					}
					switch {
					case ack == nil && !h.Cl["b"].Closed():
						h.violate("suback:missing-for-denied-filter", "SUBSCRIBE %q by b: no SUBACK: %v", f[1], got)
					case ack != nil && len(ack.ReasonCodes) != len(filters):
						h.violate("suback:reason-code-count", "SUBSCRIBE %q by b: %d filters, codes %x", f[1], len(filters), ack.ReasonCodes)
					case ack != nil && ack.ReasonCodes[i] < 0x80:
						h.violate("suback:denied-filter-granted", "SUBSCRIBE %q by b ((b,%s,read) denied) granted: %v", f[1], filter, *ack)
					case ack != nil && ack.ReasonCodes[i] != want:
						h.violate(fmt.Sprintf("suback:denied-filter-code-not-%#x", want), "SUBSCRIBE %q by b: codes %x, want %#x for %q (obscure=%v ver=%d)", f[1], ack.ReasonCodes, want, filter, cfg.obscure, cfg.ver)
					}
				}
				// deliveries in got were consumed by do(): judge them here
				for _, p := range pubsOf(got) {
					route := "live"
					if p.Retain {
						route = "retained-replay"
					}
					judge("b", p, route)
				}
			case "rb":
				nRb++
				h.Cl["b"].Drop()
				got := h.connect("b", bConn(false))
				for _, p := range pubsOf(got) {
					judge("b", p, "live")
				}
			}
			sweep()
		})

		var next []string
		if len(hist)-1 < maxOps { // total op budget
			if aConns < 2 && !aOpen {
				next = append(next, "ca:none", "ca:w1", "ca:sysw1", "ca:wild")
				if wide {
					next = append(next, "ca:w0")
				}
				if cfg.ver == 5 {
					next = append(next, "ca:dw1", "ca:dsysw1")
				}
			}
			if pendingDelay && nTk < 1 {
				next = append(next, "tk")
			}
			if aOpen {
				if aDrops < 2 {
					next = append(next, "da")
				}
				if nPub < maxP {
					next = append(next, "pa:x:1:1", "pa:x:0:0", "pa:$SYS/x:1:1", "pa:w:1:1")
					if wide {
						next = append(next, "pa:x:0:1", "pa:x:1:0", "pa:$SYS/x:0:0", "pa:w:0:0")
					}
					if cfg.ver == 5 {
						next = append(next, "pa:x:1:1:r", "pa:w:1:1:r", "pa:$SYS/x:1:1:r")
						if wide {
							next = append(next, "pa:w:0:0:r", "pa:$SYS/x:0:0:r")
						}
					}
				}
				if cfg.ver == 5 && aliasLit != "" && nAliasOnly < 1 {
					next = append(next, "pa::1:1:u")
					if wide {
						next = append(next, "pa::0:0:u")
					}
				}
			}
			if nSub < maxS && !h.Cl["b"].Closed() {
				next = append(next, "sb:x", "sb:w", "sb:#", "sb:+")
				if wide {
					next = append(next, "sb:+,w", "sb:x,+")
				}
			}
			if nRb < 1 && nSub > 0 {
				next = append(next, "rb")
			}
		}
		key := h.W.State() + fmt.Sprintf("|%s|%d|%d,%d,%d,%d,%d,%d|%v,%v,%v|%v|%v|%d,%q,%q", hist[0], len(hist), aConns, aDrops, nPub, nSub, nRb, nTk, aOpen, aDelayed, pendingDelay, sortedStrings(keysOf(granted)), sortedStrings(keysOf(refused)), nAliasOnly, aliasLit, aliasAcc)
		// retained-store read-out by a fresh all-permission client (after the key: not part of the state)
		h.last = true
		t := h.W.Connect(world.ConnectPacket("t", 5, true))
		for _, p := range pubsOf(t.Do(ref.Packet{Type: ref.SUBSCRIBE, PacketID: 1, Filters: []ref.Filter{{Filter: "#", Opts: 1}, {Filter: "$SYS/#", Opts: 1}}})) {
			judge("t", p, "retained-store")
			counters["retained-store-entries-judged"]++
		}
		res := h.finish(key, next)
		res.Counters = counters
		return res
	}
}

func init() {
	explore.RegisterBFS("c17", c17Run)
	explore.Register("C17", func(c *explore.Ctx) {
		c.Rep.Level = "model_checking"
		c.Rep.Assumption("one operation at a time, broker run to quiescence under the deterministic default schedule (sequential histories)")
		c.Rep.Assumption("permission relation implemented by a test ACL hook over {a,b} x {x,w} x {read,write}: all 16 settings of the four observable bits, plus the wildcard filter-string entry (b,'+',read) (quick: denied; thorough 'full': both), every other triple allowed")
		c.Rep.Assumption("delayed wills: Will Delay Interval 5 s, Session Expiry 60 s, one step of 10 s virtual time followed by one run of the housekeeping jobs")
		c.Rep.Assumption("topic aliases: alias 1 on the writer's MQTT 5 connection, bound by publishes on x / w / $SYS/x (also when that publish is refused) and used by one alias-only publish per history; whether a refused publish binds the alias is not judged, only the topic the alias-only message comes out on")
		c.Rep.Assumption("state = reflective dump of *Server plus pool counters; the retained-store read-out after the last op is not part of the state")
		if c.Quick() {
			explore.RunBFS(c, "c17", "n=4", 0, 70*time.Second)
		} else {
			explore.RunBFS(c, "c17", "full,n=5", 0, 6*time.Minute)
			explore.RunBFS(c, "c17", "wide,n=5", 0, 5*time.Minute)
		}
	})
}
