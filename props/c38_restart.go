package props

import (
	"fmt"
	"sort"
	"strings"
	"sync/atomic"
	"time"

	mqtt "github.com/mochi-mqtt/server/v2"

	"verif/explore"
	"verif/ref"
	"verif/world"
)

// C38 across a broker restart. E2 scenario "c38restart", arg "be=<backend>,sc=<menu>[,opt=restore][,deep]".
//
// A broker on ONE real storage back end (the driver of C20/C21: props/storage_restart.go),
// started the way Server.Serve starts it (readStore, listener, first $SYS publication). The
// history alphabet is that of the storage properties (connect modes, takeover, drop,
// DISCONNECT, subscribe plain / shared, unsubscribe, QoS 1 publish retained / not /
// retained clear, acknowledge, 40 s tick + housekeeping) plus
//
//	sys      one $SYS publication (publishSysTopics: what the broker's timer does every
//	         SysTopicResendInterval; the storage hook stores the counters with it)
//	restart  the steps of Server.Close (every client disconnected, handlers run out, hook
//	         stopped), then a NEW server + NEW hook instance on the same store, started like
//	         Server.Serve (readStore, listener, $SYS publication)
//
// and the SAME monitor as scenario "c38" after every operation, before and after the
// restart: reported connected clients / subscriptions / retained / in-flight = actual count
// (open established connections, trie walk, retained map, sum of in-flight maps). The
// sessions, subscriptions, in-flight and retained messages a restarted broker holds are the
// ones it read from the store; what it reports has to match them whatever
// Compatibilities.RestoreSysInfoOnRestart says (opt=restore switches it on), and the
// operations on restored state that follow (resume, clean start, unsubscribe, acknowledge,
// session expiry, retained clear) must keep the counters equal (hence non-negative).
//
// A drift that appears with the restart is keyed by what the stored $SYS snapshot said
// about that counter:
//
//	restart:snapshot-current   the snapshot equals the count the broker held when it had shut
//	                           down, the restarted broker holds the same number, and still the
//	                           reported value differs
//	restart:snapshot-stale     the snapshot differs from the count at shutdown (state changed
//	                           after the last $SYS publication, or by the shutdown itself)
//	restart:restored-differs   the restarted broker holds another number of items than the
//	                           broker held at shutdown (restart fidelity: C20's business)
//
// Menus (A = "a:b" v5, B = "a" v4, P = publisher):
//
//	subs: A and B connected with persistent sessions; subscribe (plain, shared), unsubscribe,
//	      drop, reconnect (resume / clean start / v5 session that ends with the connection), tick
//	msgs: A and B connected and subscribed to "c"; QoS 1 publishes (retained / not / retained
//	      clear), acknowledgements, drop, reconnect, tick
//	rest: the history starts on a RESTARTED broker (set-up: A with a plain and a shared
//	      subscription, B with a plain one, a retained QoS 1 publish in flight to both, $SYS
//	      publication, restart); resume, clean start (v5, v4), acknowledge, unsubscribe,
//	      re-subscribe, drop, DISCONNECT, retained clear, publish, session expiry, second restart

type c38r struct {
	s        *stScen
	mon      *c38Mon
	restore  bool // Compatibilities.RestoreSysInfoOnRestart
	Restarts int
	NSys     int
	// Snap: the counters the broker reported at its latest $SYS publication (what it handed to
	// the storage hook as snapshot), by counter name
	Snap map[string]int64
	// counters for non-vacuity
	restoredSubs, restoredInflight, restoredRetained, restoredSessions int
	classes                                                            map[string]int
}

func (r *c38r) cfgMod() func(c *world.Config) {
	if !r.restore {
		return nil
	}
	return func(c *world.Config) {
		c.Caps = func(caps *mqtt.Capabilities) { caps.Compatibilities.RestoreSysInfoOnRestart = true }
	}
}

func (r *c38r) established() int {
	n := 0
	for _, c := range r.s.All {
		if !c.Closed() && len(c.Recv) > 0 && c.Recv[0].Type == ref.CONNACK && c.Recv[0].ReasonCode == 0 {
			n++
		}
	}
	return n
}

// sys: one $SYS publication (also the last step of Server.Serve).
func (r *c38r) sys() {
	h := r.s.H
	h.W.Spawn("sys", func() { h.W.S.VerifPublishSysTopics() })
	h.W.Run()
	info := h.W.S.Info
	r.Snap = map[string]int64{"Subscriptions": atomic.LoadInt64(&info.Subscriptions), "Inflight": atomic.LoadInt64(&info.Inflight), "Retained": atomic.LoadInt64(&info.Retained)}
	h.logf("$SYS publication: reported subscriptions=%d retained=%d inflight=%d", r.Snap["Subscriptions"], r.Snap["Retained"], r.Snap["Inflight"])
}

func (r *c38r) restart(op string) {
	s := r.s
	old := s.H
	// what the store holds as $SYS snapshot (read before the hook is stopped; for the trace only:
	// the classification uses what the broker reported at its latest $SYS publication)
	stored, snapErr := s.Wrap.Inner.StoredSysInfo()
	snap := r.Snap
	nowMs := s.W.X.NowMillis()
	stShutdown(old, s.Wrap)
	s.pollAll()
	r.mon.check(old, r.established(), op, func(string) string { return "shutdown" }, false)
	before := c38Actual(old.W.S)
	sessions := 0
	for _, cl := range old.W.S.Clients.GetAll() {
		if !cl.Net.Inline {
			sessions++
		}
	}
	old.logf("shut down: %d sessions, actual counts %+v; stored $SYS snapshot: subscriptions=%d retained=%d inflight=%d (err=%v)", sessions, before,
		stored.Subscriptions, stored.Retained, stored.Inflight, snapErr)
	viol := append([]explore.Violation{}, old.Viol...)
	viol = append(viol, runtimeViolations(old.W)...)
	old.W.End()

	h2, wrap2 := stStartWith(nil, s.Store, nowMs, nil, r.cfgMod())
	h2.Trace, h2.Step, h2.last = old.Trace, old.Step, old.last
	h2.Viol = append(viol, h2.Viol...)
	s.H, s.Wrap = h2, wrap2
	h2.logf("=== restarted on the same %s store at t=%dms (RestoreSysInfoOnRestart=%v)", s.Store.Kind, nowMs, r.restore)
	r.sys() // Server.Serve: readStore, listeners, first $SYS publication
	for _, n := range []string{"A", "B"} {
		s.Up[n] = false
		s.Pend[n] = nil
		delete(s.Mode, n)
	}
	s.Conns = map[string]int{}
	s.NSub, s.NUns, s.NAck, s.NDisc, s.Ticks, r.NSys = 0, 0, 0, 0, 0, 0
	r.Restarts++
	after := c38Actual(h2.W.S)
	h2.logf("restarted: actual counts %+v", after)
	r.restoredSubs += after.Subs
	r.restoredInflight += after.Inflight
	r.restoredRetained += after.RetNonSys
	r.restoredSessions += sessions
	class := func(counter string) string {
		var sv int64
		var b, a int
		cur := false
		switch counter {
		case "Subscriptions":
			sv, b, a = snap["Subscriptions"], before.Subs, after.Subs
			cur = sv == int64(b)
		case "Inflight":
			sv, b, a = snap["Inflight"], before.Inflight, after.Inflight
			cur = sv == int64(b)
		case "Retained":
			sv, b, a = snap["Retained"], before.RetNonSys, after.RetNonSys
			cur = sv == int64(before.RetNonSys) || sv == int64(before.RetAll)
		default:
			return "restart"
		}
		c := "restart:snapshot-stale"
		switch {
		case b != a:
			c = "restart:restored-differs"
		case cur:
			c = "restart:snapshot-current"
		}
		if b > 0 || a > 0 {
			r.classes[counter+":"+c]++
		}
		return c
	}
	classes := map[string]string{"ClientsConnected": "restart"}
	for _, c := range []string{"Subscriptions", "Inflight", "Retained"} {
		classes[c] = class(c)
	}
	r.mon.check(h2, r.established(), op, func(counter string) string { return classes[counter] }, false)
	if h2.last {
		c38SysTopics(h2)
	}
	s.dial("P", "x")
}

func c38rSetup(sc string, r *c38r) {
	s := r.s
	r.sys() // Server.Serve ends with the first $SYS publication
	s.dial("P", "x")
	switch sc {
	case "subs":
		s.apply("con|A|k")
		s.apply("con|B|k")
	case "msgs":
		s.apply("con|A|k")
		s.apply("sub|A|c|o")
		s.apply("con|B|k")
		s.apply("sub|B|c|o")
	case "rest":
		// restored state: two persistent sessions with a plain and a shared subscription, one
		// retained message, one in-flight message each; snapshot taken, broker restarted
		s.apply("con|A|k")
		s.apply("sub|A|c|o")
		s.apply("sub|A|$share/g/d|z")
		s.apply("con|B|k")
		s.apply("sub|B|c|o")
		s.apply("pub|c|1|0")
		r.sys()
		r.restart("restart (setup)")
		r.Restarts = 0
	default:
		panic("c38restart: unknown menu " + sc)
	}
	s.NSub, s.NDisc, s.Pubs = 0, 0, 0
	r.mon.check(s.H, r.established(), "setup", func(string) string { return "setup" }, false)
}

func c38rNext(sc string, deep bool, r *c38r) []string {
	s := r.s
	var next []string
	add := func(ok bool, ops ...string) {
		if ok {
			next = append(next, ops...)
		}
	}
	d := 0
	if deep {
		d = 1
	}
	// the decisive short histories (sys, restart) are enumerated first on every level
	add(r.NSys < 1+d, "sys")
	add(r.Restarts < 1+d, "restart")
	switch sc {
	case "subs":
		add(s.Up["A"] && s.NSub < 2+d, "sub|A|c|o", "sub|A|$share/g/c|z")
		add(s.Up["B"] && s.NSub < 2+d, "sub|B|c|o")
		add(s.Up["A"] && s.NUns < 1+d, "unsub|A|c")
		add(s.Up["A"] && s.NDisc < 1+d, "drop|A")
		add(s.Conns["A"] < 2, "con|A|k", "con|A|c", "con|A|n")
		add(!s.Up["B"] && s.Conns["B"] < 1, "con|B|k")
		add(s.Ticks < 2, "tick")
	case "msgs":
		add(s.Pubs < 2+d, "pub|c|0|0", "pub|c|1|0", "pub|c|1|clr")
		add(s.Up["A"] && len(s.Pend["A"]) > 0, "ack|A")
		add(s.Up["B"] && len(s.Pend["B"]) > 0, "ack|B")
		add(s.Up["A"] && s.NDisc < 1+d, "drop|A")
		add(s.Up["B"] && s.NDisc < 1+d, "drop|B")
		add(!s.Up["A"] && s.Conns["A"] < 2, "con|A|k", "con|A|c")
		add(!s.Up["B"] && s.Conns["B"] < 2, "con|B|k")
		add(s.Ticks < 2, "tick")
	case "rest":
		add(s.Conns["A"] < 1+d, "con|A|k", "con|A|c")
		add(s.Conns["B"] < 1, "con|B|k", "con|B|c")
		add(s.Up["A"] && len(s.Pend["A"]) > 0, "ack|A")
		add(s.Up["B"] && len(s.Pend["B"]) > 0, "ack|B")
		add(s.Up["A"] && s.NUns < 1+d, "unsub|A|c", "unsub|A|$share/g/d")
		add(s.Up["A"] && s.NSub < 1, "sub|A|c|o", "sub|A|$share/g/d|z")
		add(s.Up["A"] && s.NDisc < 1, "drop|A", "dis|A")
		add(s.Pubs < 1+d, "pub|c|1|clr", "pub|c|0|0")
		add(s.Ticks < 2, "tick")
	}
	return next
}

func c38rRun(arg string) explore.HistFn {
	be := c20Arg(arg, "be", "bolt")
	sc := c20Arg(arg, "sc", "subs")
	deep := strings.Contains(arg, "deep")
	restore := c20Arg(arg, "opt", "") == "restore"
	return func(hist []string) explore.HistResult {
		store := stNewStore(be)
		defer store.Destroy()
		r := &c38r{mon: &c38Mon{drift: map[string]int64{}, TolerantRetained: true}, restore: restore, classes: map[string]int{}}
		h, wrap := stStartWith(nil, store, 0, nil, r.cfgMod())
		r.s = &stScen{H: h, Store: store, Wrap: wrap, Conns: map[string]int{}, Up: map[string]bool{}, Mode: map[string]string{},
			Pend: map[string][]uint16{}, Seen: map[string][]ref.Packet{}, pid: 100}
		s := r.s
		s.H.last = len(hist) == 0
		c38rSetup(sc, r)
		for i, op := range hist {
			s.H.Step = i
			s.H.last = i == len(hist)-1
			s.logf("--- op %d: %s", i, op)
			kind := strings.Split(op, "|")[0]
			switch kind {
			case "sys":
				r.NSys++
				r.sys()
				if s.H.last {
					c38SysTopics(s.H)
				}
			case "restart":
				r.restart(op)
				continue // monitored inside
			case "con":
				f := strings.Split(op, "|")
				kind = "con-" + f[2]
				if s.Up[f[1]] {
					kind += "-takeover"
				}
				s.apply(op)
			default:
				s.apply(op)
			}
			s.pollAll()
			k := kind
			r.mon.check(s.H, r.established(), op, func(string) string { return k }, false)
		}
		var drift []string
		for k, v := range r.mon.drift {
			if v != 0 {
				drift = append(drift, fmt.Sprintf("%s%+d", k, v))
			}
		}
		sort.Strings(drift)
		key := s.W.State() + s.modelKey() + fmt.Sprintf("|sys=%d restarts=%d drift=%v|store:%s", r.NSys, r.Restarts, drift, stRead(s.Wrap.Inner))
		next := c38rNext(sc, deep, r)
		counters := map[string]int{"restarts": r.Restarts, "subscriptions_restored": r.restoredSubs, "inflight_restored": r.restoredInflight,
			"retained_restored": r.restoredRetained, "sessions_at_shutdown": r.restoredSessions}
		for k, v := range r.classes {
			counters["restart_with_items:"+k] = v
		}
		_ = s.Wrap.Stop()
		res := s.H.finish(key, next)
		res.Counters = counters
		return res
	}
}

// c38Restart runs the restart scenarios of the tier and folds their counters into the report.
func c38Restart(c *explore.Ctx) {
	type run struct {
		arg   string
		depth int
		sec   int
	}
	var runs []run
	if c.Quick() {
		runs = []run{{"be=bolt,sc=rest", 3, 10}, {"be=bolt,sc=msgs", 4, 10}, {"be=bolt,sc=subs", 4, 10}, {"be=bolt,sc=rest,opt=restore", 3, 5}}
	} else {
		for _, be := range []string{"bolt", "redis", "pebble", "badger"} {
			runs = append(runs, run{"be=" + be + ",sc=rest,deep", 5, 10}, run{"be=" + be + ",sc=msgs,deep", 6, 10}, run{"be=" + be + ",sc=subs,deep", 6, 10},
				run{"be=" + be + ",sc=rest,opt=restore", 4, 5})
		}
	}
	totals := map[string]int64{}
	for _, r := range runs {
		st := explore.RunBFS(c, "c38restart", r.arg, r.depth, time.Duration(r.sec)*time.Second)
		for k, v := range st.Counters {
			totals[k] += v
		}
	}
	for k, v := range totals {
		c.Rep.Count("c38restart_"+k, v)
	}
	if totals["restarts"] > 0 && (totals["subscriptions_restored"] == 0 || totals["inflight_restored"] == 0 || totals["retained_restored"] == 0) {
		c.Rep.Add(explore.Violation{Key: "internal:vacuous:c38restart", Msg: fmt.Sprintf("the restart scenarios restored no subscriptions, in-flight or retained messages: %v", totals)})
	}
}
