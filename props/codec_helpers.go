package props

// Shared helpers of the codec checks (C26, C27, C29, C42): calling mochi's packets
// package the way the broker does (clients.go ReadFixedHeader/ReadPacket/WritePacket),
// converting between mochi's Packet and the reference Packet, canonical comparison.

import (
	"bytes"
	"errors"
	"fmt"
	"runtime"
	"sort"
	"strings"
	"sync"

	"github.com/mochi-mqtt/server/v2/packets"

	"verif/ref"
)

func cdcTname(t byte) string { return ref.TypeNames[t&15] }

// cdcMDecode decodes a packet body exactly as Client.ReadFixedHeader + Client.ReadPacket do:
// FixedHeader.Decode(first byte), Remaining = number of body bytes, ProtocolVersion = the
// connection's version, then the per-type decoder.
func cdcMDecode(hdr, ver byte, body []byte) (pk packets.Packet, err error) {
	var fh packets.FixedHeader
	if err = fh.Decode(hdr); err != nil {
		return pk, err
	}
	fh.Remaining = len(body)
	pk.ProtocolVersion = ver
	pk.FixedHeader = fh
	switch fh.Type {
	case packets.Connect:
		err = pk.ConnectDecode(body)
	case packets.Disconnect:
		err = pk.DisconnectDecode(body)
	case packets.Connack:
		err = pk.ConnackDecode(body)
	case packets.Publish:
		err = pk.PublishDecode(body)
	case packets.Puback:
		err = pk.PubackDecode(body)
	case packets.Pubrec:
		err = pk.PubrecDecode(body)
	case packets.Pubrel:
		err = pk.PubrelDecode(body)
	case packets.Pubcomp:
		err = pk.PubcompDecode(body)
	case packets.Subscribe:
		err = pk.SubscribeDecode(body)
	case packets.Suback:
		err = pk.SubackDecode(body)
	case packets.Unsubscribe:
		err = pk.UnsubscribeDecode(body)
	case packets.Unsuback:
		err = pk.UnsubackDecode(body)
	case packets.Pingreq:
		err = pk.PingreqDecode(body)
	case packets.Pingresp:
		err = pk.PingrespDecode(body)
	case packets.Auth:
		err = pk.AuthDecode(body)
	default:
		err = fmt.Errorf("invalid packet type; %v", fh.Type)
	}
	return pk, err
}

// cdcPanicInfo describes a recovered panic: Site is the innermost function of mochi's
// packets package on the panicking stack (no line numbers: stable key material).
type cdcPanicInfo struct {
	Site string
	Msg  string
}

func cdcRecoverSite(r any) *cdcPanicInfo {
	pcs := make([]uintptr, 48)
	n := runtime.Callers(2, pcs)
	fr := runtime.CallersFrames(pcs[:n])
	site := "?"
	for {
		f, more := fr.Next()
		if i := strings.Index(f.Function, "mochi-mqtt/server/v2/"); i >= 0 && !strings.Contains(f.Function, "/zzvrt") {
			site = f.Function[i+len("mochi-mqtt/server/v2/"):]
			break
		}
		if !more {
			break
		}
	}
	return &cdcPanicInfo{Site: site, Msg: fmt.Sprint(r)}
}

// cdcSafeDecode is cdcMDecode with panic recovery.
func cdcSafeDecode(hdr, ver byte, body []byte) (pk packets.Packet, err error, pn *cdcPanicInfo) {
	defer func() {
		if r := recover(); r != nil {
			pn = cdcRecoverSite(r)
		}
	}()
	pk, err = cdcMDecode(hdr, ver, body)
	return
}

// cdcMEncode encodes as Client.WritePacket does (the per-type encoder selected by type).
func cdcMEncode(pk *packets.Packet) (out []byte, err error, pn *cdcPanicInfo) {
	defer func() {
		if r := recover(); r != nil {
			pn = cdcRecoverSite(r)
		}
	}()
	buf := new(bytes.Buffer)
	switch pk.FixedHeader.Type {
	case packets.Connect:
		err = pk.ConnectEncode(buf)
	case packets.Connack:
		err = pk.ConnackEncode(buf)
	case packets.Publish:
		err = pk.PublishEncode(buf)
	case packets.Puback:
		err = pk.PubackEncode(buf)
	case packets.Pubrec:
		err = pk.PubrecEncode(buf)
	case packets.Pubrel:
		err = pk.PubrelEncode(buf)
	case packets.Pubcomp:
		err = pk.PubcompEncode(buf)
	case packets.Subscribe:
		err = pk.SubscribeEncode(buf)
	case packets.Suback:
		err = pk.SubackEncode(buf)
	case packets.Unsubscribe:
		err = pk.UnsubscribeEncode(buf)
	case packets.Unsuback:
		err = pk.UnsubackEncode(buf)
	case packets.Pingreq:
		err = pk.PingreqEncode(buf)
	case packets.Pingresp:
		err = pk.PingrespEncode(buf)
	case packets.Disconnect:
		err = pk.DisconnectEncode(buf)
	case packets.Auth:
		err = pk.AuthEncode(buf)
	default:
		err = errors.New("no encoder for type")
	}
	return buf.Bytes(), err, nil
}

// cdcSplitFixedHeader parses first byte + variable byte integer (strictly: <= 4 bytes,
// minimal) and returns the header byte, declared remaining length and the bytes after it.
func cdcSplitFixedHeader(b []byte) (hdr byte, rl int, body []byte, err error) {
	if len(b) < 2 {
		return 0, 0, nil, errors.New("shorter than a fixed header")
	}
	hdr = b[0]
	mul := 1
	for i := 1; i <= 4; i++ {
		if i >= len(b) {
			return hdr, 0, nil, errors.New("remaining length field truncated")
		}
		rl += int(b[i]&0x7f) * mul
		if b[i]&0x80 == 0 {
			if i > 1 && b[i] == 0 {
				return hdr, rl, b[i+1:], errors.New("remaining length not minimal")
			}
			return hdr, rl, b[i+1:], nil
		}
		mul *= 128
	}
	return hdr, 0, nil, errors.New("remaining length longer than 4 bytes")
}

// ---------- conversions ----------

func cdcPropsToMochi(ps ref.Props) packets.Properties {
	var o packets.Properties
	for _, p := range ps {
		switch p.ID {
		case ref.PPayloadFormat:
			o.PayloadFormat, o.PayloadFormatFlag = byte(p.Num), true
		case ref.PMessageExpiry:
			o.MessageExpiryInterval = p.Num
		case ref.PContentType:
			o.ContentType = p.Str
		case ref.PResponseTopic:
			o.ResponseTopic = p.Str
		case ref.PCorrelationData:
			o.CorrelationData = p.Data
		case ref.PSubscriptionID:
			o.SubscriptionIdentifier = append(o.SubscriptionIdentifier, int(p.Num))
		case ref.PSessionExpiry:
			o.SessionExpiryInterval, o.SessionExpiryIntervalFlag = p.Num, true
		case ref.PAssignedClientID:
			o.AssignedClientID = p.Str
		case ref.PServerKeepAlive:
			o.ServerKeepAlive, o.ServerKeepAliveFlag = uint16(p.Num), true
		case ref.PAuthMethod:
			o.AuthenticationMethod = p.Str
		case ref.PAuthData:
			o.AuthenticationData = p.Data
		case ref.PRequestProblem:
			o.RequestProblemInfo, o.RequestProblemInfoFlag = byte(p.Num), true
		case ref.PWillDelay:
			o.WillDelayInterval = p.Num
		case ref.PRequestResponse:
			o.RequestResponseInfo = byte(p.Num)
		case ref.PResponseInfo:
			o.ResponseInfo = p.Str
		case ref.PServerReference:
			o.ServerReference = p.Str
		case ref.PReasonString:
			o.ReasonString = p.Str
		case ref.PReceiveMaximum:
			o.ReceiveMaximum = uint16(p.Num)
		case ref.PTopicAliasMaximum:
			o.TopicAliasMaximum = uint16(p.Num)
		case ref.PTopicAlias:
			o.TopicAlias, o.TopicAliasFlag = uint16(p.Num), true
		case ref.PMaximumQos:
			o.MaximumQos, o.MaximumQosFlag = byte(p.Num), true
		case ref.PRetainAvailable:
			o.RetainAvailable, o.RetainAvailableFlag = byte(p.Num), true
		case ref.PUser:
			o.User = append(o.User, packets.UserProperty{Key: p.Str, Val: p.Val})
		case ref.PMaximumPacketSize:
			o.MaximumPacketSize = p.Num
		case ref.PWildcardSubAvail:
			o.WildcardSubAvailable, o.WildcardSubAvailableFlag = byte(p.Num), true
		case ref.PSubIDAvail:
			o.SubIDAvailable, o.SubIDAvailableFlag = byte(p.Num), true
		case ref.PSharedSubAvail:
			o.SharedSubAvailable, o.SharedSubAvailableFlag = byte(p.Num), true
		}
	}
	return o
}

func cdcPropsFromMochi(o packets.Properties) ref.Props {
	var ps ref.Props
	num := func(id byte, v uint32) { ps = append(ps, ref.Prop{ID: id, Num: v}) }
	str := func(id byte, s string) {
		if s != "" {
			ps = append(ps, ref.Prop{ID: id, Str: strings.Clone(s)})
		}
	}
	bin := func(id byte, b []byte) {
		if len(b) > 0 {
			ps = append(ps, ref.Prop{ID: id, Data: append([]byte{}, b...)})
		}
	}
	if o.PayloadFormatFlag {
		num(ref.PPayloadFormat, uint32(o.PayloadFormat))
	}
	if o.MessageExpiryInterval > 0 {
		num(ref.PMessageExpiry, o.MessageExpiryInterval)
	}
	str(ref.PContentType, o.ContentType)
	str(ref.PResponseTopic, o.ResponseTopic)
	bin(ref.PCorrelationData, o.CorrelationData)
	for _, v := range o.SubscriptionIdentifier {
		num(ref.PSubscriptionID, uint32(v))
	}
	if o.SessionExpiryIntervalFlag {
		num(ref.PSessionExpiry, o.SessionExpiryInterval)
	}
	str(ref.PAssignedClientID, o.AssignedClientID)
	if o.ServerKeepAliveFlag {
		num(ref.PServerKeepAlive, uint32(o.ServerKeepAlive))
	}
	str(ref.PAuthMethod, o.AuthenticationMethod)
	bin(ref.PAuthData, o.AuthenticationData)
	if o.RequestProblemInfoFlag {
		num(ref.PRequestProblem, uint32(o.RequestProblemInfo))
	}
	if o.WillDelayInterval > 0 {
		num(ref.PWillDelay, o.WillDelayInterval)
	}
	if o.RequestResponseInfo > 0 {
		num(ref.PRequestResponse, uint32(o.RequestResponseInfo))
	}
	str(ref.PResponseInfo, o.ResponseInfo)
	str(ref.PServerReference, o.ServerReference)
	str(ref.PReasonString, o.ReasonString)
	if o.ReceiveMaximum > 0 {
		num(ref.PReceiveMaximum, uint32(o.ReceiveMaximum))
	}
	if o.TopicAliasMaximum > 0 {
		num(ref.PTopicAliasMaximum, uint32(o.TopicAliasMaximum))
	}
	if o.TopicAliasFlag {
		num(ref.PTopicAlias, uint32(o.TopicAlias))
	}
	if o.MaximumQosFlag {
		num(ref.PMaximumQos, uint32(o.MaximumQos))
	}
	if o.RetainAvailableFlag {
		num(ref.PRetainAvailable, uint32(o.RetainAvailable))
	}
	for _, u := range o.User {
		ps = append(ps, ref.Prop{ID: ref.PUser, Str: strings.Clone(u.Key), Val: strings.Clone(u.Val)})
	}
	if o.MaximumPacketSize > 0 {
		num(ref.PMaximumPacketSize, o.MaximumPacketSize)
	}
	if o.WildcardSubAvailableFlag {
		num(ref.PWildcardSubAvail, uint32(o.WildcardSubAvailable))
	}
	if o.SubIDAvailableFlag {
		num(ref.PSubIDAvail, uint32(o.SubIDAvailable))
	}
	if o.SharedSubAvailableFlag {
		num(ref.PSharedSubAvail, uint32(o.SharedSubAvailable))
	}
	return ps
}

// cdcToMochi builds the packets.Packet a user of mochi's API would build for the
// well-formed packet g (conventions of the broker's own call sites: Qos 1 in the fixed
// header of PUBREL / SUBSCRIBE / UNSUBSCRIBE).
func cdcToMochi(g ref.Packet, ver byte) packets.Packet {
	pk := packets.Packet{ProtocolVersion: ver}
	pk.FixedHeader.Type = g.Type
	switch g.Type {
	case ref.PUBLISH:
		pk.FixedHeader.Qos, pk.FixedHeader.Dup, pk.FixedHeader.Retain = g.Qos, g.Dup, g.Retain
	case ref.PUBREL, ref.SUBSCRIBE, ref.UNSUBSCRIBE:
		pk.FixedHeader.Qos = 1
	}
	pk.Properties = cdcPropsToMochi(g.Props)
	pk.PacketID = g.PacketID
	pk.ReasonCode = g.ReasonCode
	switch g.Type {
	case ref.CONNECT:
		pk.ProtocolVersion = g.ProtoVer
		c := &pk.Connect
		c.ProtocolName = []byte(g.ProtoName)
		c.Clean, c.Keepalive, c.ClientIdentifier = g.CleanStart, g.KeepAlive, g.ClientID
		c.WillFlag, c.WillQos, c.WillRetain, c.WillTopic, c.WillPayload = g.WillFlag, g.WillQos, g.WillRetain, g.WillTopic, g.WillPayload
		c.WillProperties = cdcPropsToMochi(g.WillProps)
		c.UsernameFlag, c.PasswordFlag, c.Username, c.Password = g.UserFlag, g.PassFlag, g.Username, g.Password
	case ref.CONNACK:
		pk.SessionPresent = g.SessionPresent
	case ref.PUBLISH:
		pk.TopicName, pk.Payload = g.Topic, g.Payload
	case ref.SUBSCRIBE, ref.UNSUBSCRIBE:
		for _, f := range g.Filters {
			s := packets.Subscription{Filter: f.Filter}
			if g.Type == ref.SUBSCRIBE {
				s.Qos = f.Opts & 3
				if ver >= 5 {
					s.NoLocal = f.Opts&4 != 0
					s.RetainAsPublished = f.Opts&8 != 0
					s.RetainHandling = (f.Opts >> 4) & 3
				}
			}
			pk.Filters = append(pk.Filters, s)
		}
	case ref.SUBACK, ref.UNSUBACK:
		pk.ReasonCodes = g.ReasonCodes
	}
	return pk
}

// cdcFromMochi reads a decoded mochi packet back into the reference representation.
func cdcFromMochi(pk packets.Packet, ver byte) ref.Packet {
	g := ref.Packet{Type: pk.FixedHeader.Type}
	if g.Type == ref.PUBLISH {
		g.Qos, g.Dup, g.Retain = pk.FixedHeader.Qos, pk.FixedHeader.Dup, pk.FixedHeader.Retain
	}
	g.Props = cdcPropsFromMochi(pk.Properties)
	g.PacketID = pk.PacketID
	g.ReasonCode = pk.ReasonCode
	switch g.Type {
	case ref.CONNECT:
		c := pk.Connect
		g.ProtoName, g.ProtoVer = string(c.ProtocolName), pk.ProtocolVersion
		g.CleanStart, g.KeepAlive, g.ClientID = c.Clean, c.Keepalive, strings.Clone(c.ClientIdentifier)
		g.WillFlag, g.WillQos, g.WillRetain = c.WillFlag, c.WillQos, c.WillRetain
		g.WillTopic, g.WillPayload = strings.Clone(c.WillTopic), append([]byte{}, c.WillPayload...)
		g.WillProps = cdcPropsFromMochi(c.WillProperties)
		g.UserFlag, g.PassFlag = c.UsernameFlag, c.PasswordFlag
		g.Username, g.Password = append([]byte{}, c.Username...), append([]byte{}, c.Password...)
	case ref.CONNACK:
		g.SessionPresent = pk.SessionPresent
	case ref.PUBLISH:
		g.Topic, g.Payload = strings.Clone(pk.TopicName), append([]byte{}, pk.Payload...)
	case ref.SUBSCRIBE, ref.UNSUBSCRIBE:
		for _, s := range pk.Filters {
			f := ref.Filter{Filter: strings.Clone(s.Filter)}
			if g.Type == ref.SUBSCRIBE {
				f.Opts = s.Qos & 3
				if s.NoLocal {
					f.Opts |= 4
				}
				if s.RetainAsPublished {
					f.Opts |= 8
				}
				f.Opts |= (s.RetainHandling & 3) << 4
			}
			g.Filters = append(g.Filters, f)
		}
	case ref.SUBACK, ref.UNSUBACK:
		g.ReasonCodes = append([]byte{}, pk.ReasonCodes...)
	}
	return g
}

// ---------- canonical form and comparison ----------

// cdcUnjudgedZero reports property values that mochi's Packet type cannot represent as
// "present" (no presence flag) and for which the specification gives no default: a zero
// number / empty string. They are either protocol errors (Receive Maximum 0, Maximum Packet
// Size 0, Topic Alias 0, Subscription Identifier 0, Maximum QoS >= 2) or of unspecified
// meaning (empty Content Type, Message Expiry Interval 0, ...); the checks do not judge them.
func cdcUnjudgedZero(p ref.Prop) bool {
	switch ref.PropKind(p.ID) {
	case "str":
		return p.Str == ""
	case "bin":
		return len(p.Data) == 0
	}
	switch p.ID {
	case ref.PMessageExpiry, ref.PReceiveMaximum, ref.PMaximumPacketSize, ref.PSubscriptionID, ref.PTopicAlias:
		return p.Num == 0
	case ref.PMaximumQos:
		return p.Num >= 2
	}
	return false
}

func cdcCanonProps(ps ref.Props, ctx int) ref.Props {
	var out ref.Props
	for _, p := range ps {
		if d, ok := ref.PropDefault(p.ID, ctx); ok && p.Num == d {
			switch ref.PropKind(p.ID) {
			case "byte", "u16", "u32", "var":
				continue
			}
		}
		if cdcUnjudgedZero(p) {
			continue
		}
		out = append(out, p)
	}
	sort.SliceStable(out, func(i, j int) bool { return out[i].ID < out[j].ID })
	return out
}

// cdcCanon normalises a packet for comparison under protocol version ver: properties sorted
// by identifier (order among equal identifiers kept), specified defaults dropped, fields
// that do not exist in the version/type cleared.
func cdcCanon(g ref.Packet, ver byte) ref.Packet {
	if g.Type == ref.CONNECT {
		ver = g.ProtoVer
	}
	if g.Type != ref.PUBLISH {
		g.Dup, g.Qos, g.Retain = false, 0, false
	}
	if ver >= 5 {
		g.Props = cdcCanonProps(g.Props, int(g.Type))
		g.WillProps = cdcCanonProps(g.WillProps, ref.WillCtx)
	} else {
		g.Props, g.WillProps = nil, nil
		switch g.Type {
		case ref.PUBACK, ref.PUBREC, ref.PUBREL, ref.PUBCOMP, ref.DISCONNECT, ref.AUTH:
			g.ReasonCode = 0
		case ref.UNSUBACK:
			g.ReasonCodes = nil
		}
		if g.Type == ref.SUBSCRIBE {
			fs := append([]ref.Filter{}, g.Filters...)
			for i := range fs {
				fs[i].Opts &= 3
			}
			g.Filters = fs
		}
	}
	if !g.WillFlag {
		g.WillQos, g.WillRetain, g.WillTopic, g.WillPayload, g.WillProps = 0, false, "", nil, nil
	}
	if !g.UserFlag {
		g.Username = nil
	}
	if !g.PassFlag {
		g.Password = nil
	}
	if g.Type == ref.PUBLISH && g.Qos == 0 {
		g.PacketID = 0
	}
	return g
}

func cdcPropEq(a, b ref.Prop) bool {
	return a.ID == b.ID && a.Num == b.Num && a.Str == b.Str && a.Val == b.Val && bytes.Equal(a.Data, b.Data)
}

func cdcPropsDiff(a, b ref.Props) string {
	for i := 0; i < len(a) || i < len(b); i++ {
		switch {
		case i >= len(a):
			return fmt.Sprintf("%#02x", b[i].ID)
		case i >= len(b):
			return fmt.Sprintf("%#02x", a[i].ID)
		case !cdcPropEq(a[i], b[i]):
			id := a[i].ID
			if b[i].ID < id {
				id = b[i].ID
			}
			return fmt.Sprintf("%#02x", id)
		}
	}
	return ""
}

// cdcDiffPackets returns the name of the first field in which two canonical packets differ ("" = equivalent).
func cdcDiffPackets(a, b ref.Packet) string {
	switch {
	case a.Type != b.Type:
		return "type"
	case a.Dup != b.Dup:
		return "dup"
	case a.Qos != b.Qos:
		return "qos"
	case a.Retain != b.Retain:
		return "retain"
	case a.ProtoName != b.ProtoName:
		return "protocol-name"
	case a.ProtoVer != b.ProtoVer:
		return "protocol-version"
	case a.CleanStart != b.CleanStart:
		return "clean-start"
	case a.KeepAlive != b.KeepAlive:
		return "keepalive"
	case a.ClientID != b.ClientID:
		return "client-id"
	case a.WillFlag != b.WillFlag:
		return "will-flag"
	case a.WillQos != b.WillQos:
		return "will-qos"
	case a.WillRetain != b.WillRetain:
		return "will-retain"
	case a.WillTopic != b.WillTopic:
		return "will-topic"
	case !bytes.Equal(a.WillPayload, b.WillPayload):
		return "will-payload"
	case a.UserFlag != b.UserFlag:
		return "username-flag"
	case a.PassFlag != b.PassFlag:
		return "password-flag"
	case !bytes.Equal(a.Username, b.Username):
		return "username"
	case !bytes.Equal(a.Password, b.Password):
		return "password"
	case a.SessionPresent != b.SessionPresent:
		return "session-present"
	case a.ReasonCode != b.ReasonCode:
		return "reason"
	case a.Topic != b.Topic:
		return "topic"
	case a.PacketID != b.PacketID:
		return "packet-id"
	case !bytes.Equal(a.Payload, b.Payload):
		return "payload"
	case !bytes.Equal(a.ReasonCodes, b.ReasonCodes):
		return "reason-codes"
	}
	if len(a.Filters) != len(b.Filters) {
		return "filter-count"
	}
	for i := range a.Filters {
		if a.Filters[i].Filter != b.Filters[i].Filter {
			return "filter"
		}
		if a.Filters[i].Opts != b.Filters[i].Opts {
			return "subscription-options"
		}
	}
	if d := cdcPropsDiff(a.Props, b.Props); d != "" {
		return "property-" + d
	}
	if d := cdcPropsDiff(a.WillProps, b.WillProps); d != "" {
		return "will-property-" + d
	}
	return ""
}

// cdcFieldShape refines a differing field into the failing shape used in violation keys.
func cdcFieldShape(field string, want ref.Packet) string {
	if field != "reason" {
		return field
	}
	switch {
	case want.ReasonCode == 0:
		return "reason(zero)"
	case want.ReasonCode < 0x80 && len(want.Props) == 0:
		return "reason(nonzero<0x80,no-properties)"
	case want.ReasonCode < 0x80:
		return "reason(nonzero<0x80,properties)"
	case len(want.Props) == 0:
		return "reason(>=0x80,no-properties)"
	}
	return "reason(>=0x80,properties)"
}

func cdcShort(b []byte) string {
	if len(b) <= 48 {
		return fmt.Sprintf("% x", b)
	}
	return fmt.Sprintf("% x … (%d bytes)", b[:48], len(b))
}

func cdcShortPacket(g ref.Packet) string {
	s := g.String()
	if len(s) > 300 {
		s = s[:300] + "…"
	}
	return s
}

// cdcStrSet is a concurrency-safe set of strings (distinct-case counters).
type cdcStrSet struct {
	mu sync.Mutex
	m  map[string]struct{}
}

func (s *cdcStrSet) addAll(keys map[string]struct{}) {
	s.mu.Lock()
	if s.m == nil {
		s.m = map[string]struct{}{}
	}
	for k := range keys {
		s.m[k] = struct{}{}
	}
	s.mu.Unlock()
}

func (s *cdcStrSet) size() int64 {
	s.mu.Lock()
	defer s.mu.Unlock()
	return int64(len(s.m))
}

// codecReplay is the replay record of the E1 codec checks.
type codecReplay struct {
	Kind   string `json:"kind"`             // decode | roundtrip | reencode | encoding | varint-decode | varint-encode
	Hdr    byte   `json:"hdr,omitempty"`    // fixed header byte
	Ver    byte   `json:"ver,omitempty"`    // protocol version
	Hex    string `json:"hex,omitempty"`    // body / whole packet / varint bytes (hex)
	Packet any    `json:"packet,omitempty"` // reference packet (roundtrip)
	Mods   string `json:"mods,omitempty"`
	Value  int64  `json:"value,omitempty"`
}
