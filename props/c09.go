package props

import (
	"time"

	"verif/explore"
)

// C09: an unacknowledged QoS 1/2 message stays in the session until acknowledged and is
// redelivered on every reconnection with session present: PUBLISH with DUP=1 and the
// original packet id while no PUBREC was sent, PUBREL after PUBREC, nothing after the
// acknowledgement, nothing from before a clean start.
//
// Engine E2, scenario "c09" (see qos_helpers.go for alphabet and reference model).
// Subscriber a (v5 with Receive Maximum 1 | 8 | undeclared, or v4), publisher p, message
// pool 3 (QoS 1 and 2), a acknowledges any outstanding id step by step, network drop,
// reconnect clean start 0/1, takeover 0/1. After EVERY reached state the closure "drop +
// reconnect with clean start 0" is executed on the replayed instance and judged too.
// Monitor (DESIGN A.3): per message Queued -> Sent(id) -> Recd(id) -> Done; after CONNACK
// sp=1: Sent => exactly one PUBLISH DUP=1 same id; Recd => PUBREL, no PUBLISH; Done =>
// nothing; old epoch => nothing. DUP on the first transmission of a Queued message and
// the moment a Queued message is transmitted are unspecified (DESIGN §3.2).
// A message that was accepted for the session but never transmitted (held back behind a's
// Receive Maximum, published while a was offline) is followed through session resumption
// too: WHEN it is transmitted is left to flow control, but if it is still untransmitted
// after the closure's reconnect, a acknowledges everything it received, resumes the
// session once more and acknowledges again; a message still untransmitted then (and not
// reported as dropped) has left the session: key
// c09:queued-message-gone-after-session-resumption:<after-deferred-release|after-failed-write|deferred-behind-receive-maximum|published-while-offline|other>
// (the first two shapes are consequences of the known deferred-release defect).
// Fault scenarios ("wf=1"): op failnext breaks a's link in the broker->client direction at
// any quiescent point (the broker's next write to the connection fails, a sees nothing
// more, the connection is dropped after that step). A PUBREC the broker processed
// (OnPacketProcessed) but could not answer moves the message to Recd all the same: the
// next CONNACK sp=1 must be followed by PUBREL and not by PUBLISH (MQTT-4.3.3-5/-6,
// MQTT-4.4.0-1; keys c09:publish-resent-after-pubrec:pubrel-write-failed,
// c09:pubrel-not-resent:pubrel-write-failed).

func init() {
	explore.RegisterBFS("c09", qosRun("c09"))
	explore.Register("C09", func(c *explore.Ctx) {
		c.Rep.Level = "model_checking"
		c.Rep.Assumption("one client action at a time, broker run to quiescence under the deterministic default schedule (sequential histories)")
		c.Rep.Assumption("state = reflective dump of *Server plus reference-model state and pool counters; histories merged only if byte-identical")
		c.Rep.Assumption("write faults: one failing conn.Write per history (the first write after the fault point), the client sees nothing written after it and drops the connection at the end of that step; a message whose PUBLISH was lost that way counts as queued only")
		c.Rep.Assumption("a queued, never transmitted message need not be transmitted right after CONNACK; it is judged lost only if it is still untransmitted after two session resumptions with everything received acknowledged in between and afterwards")
		c.Rep.Assumption("DUP on the first transmission of a message that was only queued, and the time a queued message is first transmitted, are unspecified for C09")
		var sts []*explore.BFSStats
		if c.Quick() {
			sts = append(sts, explore.RunBFS(c, "c09", "v=5,rm=1,pubs=3,qos=12,conns=2,clean=1,take=1,closure=reconnect", 0, 30*time.Second))
			sts = append(sts, explore.RunBFS(c, "c09", "v=5,rm=8,pubs=2,qos=12,conns=2,clean=1,take=1,closure=reconnect", 0, 25*time.Second))
			sts = append(sts, explore.RunBFS(c, "c09", "v=4,pubs=2,qos=12,conns=2,clean=1,take=1,closure=reconnect", 0, 20*time.Second))
			sts = append(sts, explore.RunBFS(c, "c09", "v=4,pubs=2,qos=12,conns=1,take=1,wf=1,closure=reconnect", 0, 20*time.Second))
			sts = append(sts, explore.RunBFS(c, "c09", "v=5,rm=1,pubs=2,qos=2,conns=1,wf=1,closure=reconnect", 0, 15*time.Second))
		} else {
			sts = append(sts, explore.RunBFS(c, "c09", "v=5,rm=1,pubs=3,qos=12,conns=2,clean=1,take=1,closure=reconnect", 0, 4*time.Minute))
			sts = append(sts, explore.RunBFS(c, "c09", "v=5,rm=8,pubs=3,qos=12,conns=2,clean=1,take=1,closure=reconnect", 0, 4*time.Minute))
			sts = append(sts, explore.RunBFS(c, "c09", "v=4,pubs=3,qos=12,conns=2,clean=1,take=1,closure=reconnect", 0, 3*time.Minute))
			sts = append(sts, explore.RunBFS(c, "c09", "v=4,pubs=2,qos=12,conns=2,clean=1,take=1,wf=1,closure=reconnect", 0, 2*time.Minute))
			sts = append(sts, explore.RunBFS(c, "c09", "v=5,rm=1,pubs=3,qos=12,conns=2,take=1,wf=1,closure=reconnect", 0, 2*time.Minute))
			sts = append(sts, explore.RunBFS(c, "c09", "v=5,rm=8,pubs=2,qos=2,conns=2,take=1,wf=2,closure=reconnect", 0, 2*time.Minute))
		}
		qosFold(c, sts, "redeliveries_expected", "pubrel_resends_expected", "takeovers", "deferred_releases", "pubrel_write_faults", "queued_at_session_resumption", "deferred_at_session_resumption")
	})
}
