package props

import (
	"time"

	"verif/explore"
)

// dfsAgg runs IterateDFS and accumulates the scenario-declared counters of the deepest
// bound that was run, so that a check can test its non-vacuity counters at the end.
type dfsAgg struct {
	C        *explore.Ctx
	Counters map[string]int64
	Execs    int64
}

func newDfsAgg(c *explore.Ctx) *dfsAgg { return &dfsAgg{C: c, Counters: map[string]int64{}} }

func (a *dfsAgg) run(name, arg string, bounds []explore.Bounds, budget time.Duration) {
	if a.C.Expired() {
		a.C.Rep.Capped("scenario " + name + ":" + arg + " not started (deadline)")
		return
	}
	_, last := explore.IterateDFS(a.C, name, arg, bounds, budget)
	if last == nil {
		return
	}
	a.Execs += last.Executions
	for k, v := range last.Counters {
		a.Counters[k] += v
	}
}

// requireCounters reports a vacuous scenario family as an internal violation (a zero is a
// bug in the check, not a pass). Skipped when VERIF_SCEN filtered scenarios out.
func (a *dfsAgg) requireCounters(keys ...string) {
	if a.Execs == 0 {
		return
	}
	for _, k := range keys {
		a.C.Rep.Count("nonvacuity:"+k, a.Counters[k])
		if a.Counters[k] == 0 {
			a.C.Rep.Add(explore.Violation{Key: "internal:vacuous:" + k, Msg: "no explored execution exercised '" + k + "' (the scenario family does not reach the mechanism)"})
		}
	}
}
