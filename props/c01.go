package props

import (
	"encoding/json"
	"fmt"
	"sort"
	"strings"
	"sync"

	mqtt "github.com/mochi-mqtt/server/v2"
	"github.com/mochi-mqtt/server/v2/packets"

	"verif/explore"
	"verif/ref"
)

// C01: subscription matching selects exactly the MQTT-matching subscribers.
// E1: bounded-exhaustive enumeration on the real TopicsIndex against ref.Match.

func levelStrings(tokens []string, maxDepth int) []string {
	var out []string
	var rec func(prefix []string)
	rec = func(prefix []string) {
		if len(prefix) > 0 {
			out = append(out, strings.Join(prefix, "/"))
		}
		if len(prefix) == maxDepth {
			return
		}
		for _, t := range tokens {
			rec(append(append([]string{}, prefix...), t))
		}
	}
	rec(nil)
	return out
}

var c01Levels = []string{"x", "y", "", "$s"}

func c01Filters(depth int) []string {
	var out []string
	for _, f := range levelStrings(append(append([]string{}, c01Levels...), "+", "#"), depth) {
		if ref.ValidFilter(f) && !ref.IsShare(f) {
			out = append(out, f)
		}
	}
	return out
}

func c01Topics(depth int) []string {
	var out []string
	for _, t := range levelStrings(c01Levels, depth) {
		if t != "" {
			out = append(out, t)
		}
	}
	return out
}

// c01Sub is one subscription to place on an index.
type c01Sub struct {
	Kind   string // client | shared | inline
	Client string // client id (client, shared)
	ID     int    // inline identifier
	Filter string // for shared: the part after $share/g/
}

func (s c01Sub) full() string {
	if s.Kind == "shared" {
		return "$share/g/" + s.Filter
	}
	return s.Filter
}

func (s c01Sub) apply(x *mqtt.TopicsIndex) {
	switch s.Kind {
	case "client", "shared":
		x.Subscribe(s.Client, packets.Subscription{Filter: s.full(), Qos: 1})
	case "inline":
		x.InlineSubscribe(mqtt.InlineSubscription{Subscription: packets.Subscription{Filter: s.Filter, Identifier: s.ID}, Handler: func(*mqtt.Client, packets.Subscription, packets.Packet) {}})
	}
}

func (s c01Sub) tag() string {
	switch s.Kind {
	case "client":
		return "client:" + s.Client
	case "shared":
		return "shared:" + s.full() + ":" + s.Client
	}
	return fmt.Sprintf("inline:%d", s.ID)
}

// c01Observe returns the set of selected subscriptions for topic.
func c01Observe(x *mqtt.TopicsIndex, topic string) map[string]bool {
	got := map[string]bool{}
	r := x.Subscribers(topic)
	for c := range r.Subscriptions {
		got["client:"+c] = true
	}
	for f, m := range r.Shared {
		for c := range m {
			got["shared:"+f+":"+c] = true
		}
	}
	for id := range r.InlineSubscriptions {
		got[fmt.Sprintf("inline:%d", id)] = true
	}
	return got
}

func c01Shape(filter, topic string, miss bool) string {
	if !miss && topic != "" && topic[0] == '$' && (filter[0] == '+' || filter[0] == '#') {
		return "$topic~leading-wildcard"
	}
	if strings.HasSuffix(filter, "/#") {
		parent := strings.TrimSuffix(filter, "/#")
		if ref.Match(parent, topic) {
			if strings.HasSuffix(parent, "+") {
				return "plus-then-hash~parent"
			}
			return "hash~parent"
		}
	}
	return "other"
}

// c01Check places subs on a fresh index and compares every topic; returns violations.
func c01Check(subs []c01Sub, topics []string, rep *explore.Report, phase string) (nontrivial int) {
	x := mqtt.NewTopicsIndex()
	for _, s := range subs {
		s.apply(x)
	}
	return c01Compare(x, subs, topics, rep, phase, nil)
}

func c01Compare(x *mqtt.TopicsIndex, live []c01Sub, topics []string, rep *explore.Report, phase string, ops any) (nontrivial int) {
	for _, t := range topics {
		want := map[string]bool{}
		why := map[string]c01Sub{}
		for _, s := range live {
			if ref.Match(s.Filter, t) {
				want[s.tag()] = true
				why[s.tag()] = s
			}
		}
		got := c01Observe(x, t)
		if len(want) > 0 {
			nontrivial++
		}
		for k := range want {
			if !got[k] {
				s := why[k]
				rep.Add(explore.Violation{Key: fmt.Sprintf("miss:%s:%s", s.Kind, c01Shape(s.Filter, t, true)),
					Msg:    fmt.Sprintf("[%s] topic %q: %s subscription %q matches but was not selected; subs=%v got=%v", phase, t, s.Kind, s.full(), live, keysOf(got)),
					Replay: map[string]any{"subs": live, "topic": t, "ops": ops}})
			}
		}
		for k := range got {
			if !want[k] {
				// find the subscription(s) with that tag to classify
				shape, kind, flt := "other", strings.SplitN(k, ":", 2)[0], ""
				for _, s := range live {
					if s.tag() == k {
						flt = s.full()
						if sh := c01Shape(s.Filter, t, false); sh != "other" {
							shape = sh
						}
					}
				}
				if flt == "" {
					shape = "no-such-subscription"
				}
				rep.Add(explore.Violation{Key: fmt.Sprintf("extra:%s:%s", kind, shape),
					Msg:    fmt.Sprintf("[%s] topic %q: %s selected but no such subscription matches (filter %q); subs=%v", phase, t, k, flt, live),
					Replay: map[string]any{"subs": live, "topic": t, "ops": ops}})
			}
		}
	}
	return
}

func keysOf(m map[string]bool) []string {
	var out []string
	for k := range m {
		out = append(out, k)
	}
	sort.Strings(out)
	return out
}

func init() {
	explore.RegisterReplayer("C01", func(raw json.RawMessage) (bool, []string) {
		var r struct {
			Subs  []c01Sub `json:"subs"`
			Topic string   `json:"topic"`
		}
		json.Unmarshal(raw, &r)
		rep := explore.NewReport("C01")
		c01Check(r.Subs, []string{r.Topic}, rep, "replay")
		var tr []string
		for k, v := range rep.Viol {
			tr = append(tr, k+": "+v.Msg)
		}
		return len(rep.Viol) > 0, tr
	})
	explore.Register("C01", func(c *explore.Ctx) {
		c.Rep.Level = "exploration"
		rep := c.Rep
		depth := 3
		filters := c01Filters(depth)
		topics := c01Topics(depth)
		var evals, nontriv int64
		var mu sync.Mutex
		add := func(e, n int) { mu.Lock(); evals += int64(e); nontriv += int64(n); mu.Unlock() }
		kinds := []string{"client", "shared", "inline"}
		// phase A: every single subscription of every kind × every topic
		explore.ParallelRange(len(filters)*3, c.Workers, c.Expired, func(i int) {
			s := c01Sub{Kind: kinds[i%3], Client: "c1", ID: 1, Filter: filters[i/3]}
			n := c01Check([]c01Sub{s}, topics, rep, "single")
			add(len(topics), n)
		})
		rep.Sample(map[string]any{"phase": "single", "filters": len(filters), "topics": len(topics), "example_filter": filters[len(filters)/2], "example_topic": topics[len(topics)/3]})
		// phase B: pairs (quick: filters to depth 2 on topics to depth 3; thorough: depth 3) of mixed kinds and clients
		pf := filters // pairs over the full depth-3 filter set in both tiers (deadline-guarded)
		type kc struct {
			kind, client string
			id           int
		}
		second := []kc{{"client", "c1", 0}, {"client", "c2", 0}, {"shared", "c1", 0}, {"shared", "c2", 0}, {"inline", "", 2}}
		done := explore.ParallelRange(len(pf)*len(pf), c.Workers, c.Expired, func(i int) {
			f1, f2 := pf[i/len(pf)], pf[i%len(pf)]
			for _, k1 := range kinds {
				for _, k2 := range second {
					a := c01Sub{Kind: k1, Client: "c1", ID: 1, Filter: f1}
					b := c01Sub{Kind: k2.kind, Client: k2.client, ID: k2.id, Filter: f2}
					if a.tag() == b.tag() && a.Kind != "shared" {
						// same client twice: union of two filters for one client (merge path)
						_ = a
					}
					n := c01Check([]c01Sub{a, b}, topics, rep, "pair")
					add(len(topics), n)
				}
			}
		})
		if !done {
			rep.Capped("pair phase cut by deadline")
		}
		rep.Sample(map[string]any{"phase": "pair", "filters": len(pf), "kind_combinations": 15})
		// phase C: sequences of subscribe / unsubscribe of all three kinds plus retained set /
		// clear on one index (node sharing, trim), followed by every topic
		cf := []string{"x", "x/y", "x/#", "x/+", "+/#", "#"}
		type op struct {
			Kind   string // client | shared | inline | retain
			Sub    bool
			Client string
			ID     int
			Filter string
		}
		var ops []op
		for i, f := range cf {
			ops = append(ops, op{"client", true, "c1", 0, f}, op{"client", false, "c1", 0, f},
				op{"shared", true, "c1", 0, f}, op{"shared", false, "c1", 0, f},
				op{"inline", true, "", i + 1, f}, op{"inline", false, "", i + 1, f})
		}
		for _, f := range []string{"x", "x/#"} {
			ops = append(ops, op{"client", true, "c2", 0, f}, op{"client", false, "c2", 0, f})
		}
		for _, t := range []string{"x", "x/y"} {
			ops = append(ops, op{"retain", true, "", 0, t}, op{"retain", false, "", 0, t})
		}
		seqLen := 3
		ctop := c01Topics(3)
		if !c.Quick() {
			seqLen = 4
			ctop = append(c01Topics(2), "x/y/x", "x/y/y", "x/x/y", "$s/x/y")
		}
		total := 1
		for i := 0; i < seqLen; i++ {
			total *= len(ops)
		}
		done = explore.ParallelRange(total, c.Workers, c.Expired, func(i int) {
			x := mqtt.NewTopicsIndex()
			live := map[string]c01Sub{}
			seq := make([]op, seqLen)
			n := i
			for j := 0; j < seqLen; j++ {
				seq[j] = ops[n%len(ops)]
				n /= len(ops)
			}
			for _, o := range seq {
				s := c01Sub{Kind: o.Kind, Client: o.Client, ID: o.ID, Filter: o.Filter}
				switch {
				case o.Kind == "retain":
					payload := "p"
					if !o.Sub {
						payload = ""
					}
					c02Retain(x, o.Filter, payload)
				case o.Sub:
					s.apply(x)
					live[s.tag()+"|"+o.Filter] = s
				case o.Kind == "inline":
					x.InlineUnsubscribe(o.ID, o.Filter)
					delete(live, s.tag()+"|"+o.Filter)
				default:
					x.Unsubscribe(s.full(), o.Client)
					delete(live, s.tag()+"|"+o.Filter)
				}
			}
			var ls []c01Sub
			for _, k := range explore.SortedKeys(live) {
				ls = append(ls, live[k])
			}
			nn := c01Compare(x, ls, ctop, rep, "sequence", seq)
			add(len(ctop), nn)
		})
		if !done {
			rep.Capped("sequence phase cut by deadline")
		}
		rep.Sample(map[string]any{"phase": "sequence", "ops": len(ops), "length": seqLen, "sequences": total, "example_op": ops[3]})
		rep.Count("evaluations", evals)
		rep.Count("distinct_nontrivial", nontriv)
		rep.Set("rule", "every (subscription set, topic) pair of the declared domain is evaluated once on a fresh TopicsIndex; distinct by construction; non-trivial = at least one subscription of the set matches the topic under ref.Match")
		rep.Assumption("filters and topics over level tokens {x,y,'',$s,+,#} to depth 3; only filters valid per MQTT 4.7 are inserted; $share literal in lower case")
	})
}
