package props

import (
	"time"

	"verif/explore"
)

// C11: (i) never more unacknowledged outbound QoS 1/2 PUBLISH packets in transit to a
// client than its Receive Maximum; (ii) no DISCONNECT 0x93 while the client keeps its own
// unacknowledged QoS 1/2 publishes within the server's Receive Maximum (QoS 0 never
// counts); (iii) if the client acknowledges promptly every queued message is sent.
//
// Engine E2, scenario "c11" (alphabet and model: qos_helpers.go). Client Receive Maximum
// 1|2, server Receive Maximum 1|2; bursts of QoS 1/2 publishes p -> a, a acknowledges any
// outstanding id in any order (PUBACK / PUBREC / PUBCOMP as separate steps), a publishes
// its own QoS 1/2 messages and releases them in any order, reconnects. Monitor: (i) after
// every received PUBLISH the number of PUBLISH packets sent on this connection without
// PUBACK/PUBREC (key ...exceeded) resp. without PUBACK/PUBCOMP (MQTT-3.3.4-9; separate key
// family ...counting-qos2-until-pubcomp) is <= Receive Maximum; retransmissions after a
// reconnect count; (ii) a only publishes while it holds fewer than srm incomplete
// exchanges, so any 0x93 is a violation; (iii) from EVERY reached state with a connected
// the closure "a acknowledges everything outstanding and completes its own exchanges,
// until nothing is outstanding" is run on the replayed instance; afterwards no message
// may remain untransmitted (unless a drop was reported through a hook).
//
// Quota leaks on the refusal paths (ii): with refuse=<kinds> a also publishes at QoS 0/1/2
// to topics on which the broker refuses publishes (x: write denied by an ACL hook, y:
// rejected by the publish hook with reason 0x97, z: a $SYS topic name). Reference model: a
// publish answered with a PUBACK/PUBREC whose reason code is >= 0x80 is complete
// (MQTT-3.3.4-7, §4.9) and no longer counts. With adup=2 a retransmits an open QoS 2
// PUBLISH with DUP=1 (on the same connection and after a reconnect); ops are only enabled
// while a stays within the server's Receive Maximum under BOTH readings (publishes, and
// PUBLISH packets sent on the connection), so every 0x93 is a violation; keys
// ...within-limit:after-refused-publish / :after-dup-retransmission.

// Receive Maximum per connection: with rms=<a>.<b> a declares another Receive Maximum when it
// reconnects / takes its session over (ops rc0:<rm>, to0:<rm>, ...). The reference model
// takes the limit of (i) from the CONNECT of the current connection only. A session resumed
// with a SMALLER value while messages are in flight: the resend at establishment is judged
// as before (known keys: the quota is reset to the full new value although R resent messages
// are outstanding, which explains up to rm+R packets in transit); more than rm+R packets in
// transit: key c11:receive-maximum-exceeded:after-resumption-with-smaller-receive-maximum.

func init() {
	explore.RegisterBFS("c11", qosRun("c11"))
	explore.Register("C11", func(c *explore.Ctx) {
		c.Rep.Level = "model_checking"
		c.Rep.Assumption("one client action at a time, broker run to quiescence under the deterministic default schedule (sequential histories)")
		c.Rep.Assumption("state = reflective dump of *Server plus reference-model state and pool counters; histories merged only if byte-identical")
		c.Rep.Assumption("a publish of the client answered with PUBACK/PUBREC >= 0x80 is complete; DUP retransmissions are only issued while the number of PUBLISH packets sent on the connection for incomplete exchanges stays within the server's Receive Maximum (a 0x93 on a same-connection retransmission beyond that count is not judged)")
		c.Rep.Assumption("an inbound QoS 2 publish counts against the server's Receive Maximum until PUBCOMP was sent; outbound counts until PUBACK/PUBCOMP was received (violations that only exist under this reading have their own key family)")
		var sts []*explore.BFSStats
		if c.Quick() {
			// cheap and decisive first (the budgets of the scenarios below add up to more than the tier's deadline on a loaded machine)
			sts = append(sts, explore.RunBFS(c, "c11", "v=5,rm=3,rms=3.1,srm=2,pubs=3,qos=1,conns=1,take=1,apubs=0,closure=ackall", 0, 12*time.Second))
			sts = append(sts, explore.RunBFS(c, "c11", "v=5,rm=1,srm=1,pubs=3,qos=12,conns=0,apubs=2,aids=1,abase=10,aqos=012,closure=ackall", 0, 25*time.Second))
			sts = append(sts, explore.RunBFS(c, "c11", "v=5,rm=2,srm=2,pubs=4,qos=12,conns=0,apubs=1,aids=1,abase=10,aqos=2,closure=ackall", 0, 25*time.Second))
			sts = append(sts, explore.RunBFS(c, "c11", "v=5,rm=1,srm=2,pubs=3,qos=1,conns=2,take=1,apubs=0,closure=ackall", 0, 20*time.Second))
			sts = append(sts, explore.RunBFS(c, "c11", "v=5,rm=0,srm=2,pubs=0,conns=1,apubs=2,aids=1,abase=10,aqos=12,refuse=xy,rpubs=2,closure=ackall", 0, 20*time.Second))
			sts = append(sts, explore.RunBFS(c, "c11", "v=5,rm=0,srm=2,pubs=0,conns=0,apubs=3,aids=2,abase=10,aqos=12,adup=2,closure=ackall", 0, 20*time.Second))
		} else {
			sts = append(sts, explore.RunBFS(c, "c11", "v=5,rm=1,srm=1,pubs=4,qos=12,conns=1,apubs=3,aids=2,abase=10,aqos=012,closure=ackall", 0, 4*time.Minute))
			sts = append(sts, explore.RunBFS(c, "c11", "v=5,rm=2,srm=2,pubs=4,qos=12,conns=1,apubs=3,aids=2,abase=10,aqos=12,closure=ackall", 0, 4*time.Minute))
			sts = append(sts, explore.RunBFS(c, "c11", "v=5,rm=1,srm=2,pubs=3,qos=12,conns=2,take=1,clean=1,apubs=0,closure=ackall", 0, 2*time.Minute))
			sts = append(sts, explore.RunBFS(c, "c11", "v=5,rm=0,srm=2,pubs=2,qos=2,conns=0,apubs=4,aids=3,abase=10,aqos=012,closure=ackall", 0, 90*time.Second))
			sts = append(sts, explore.RunBFS(c, "c11", "v=5,rm=0,srm=2,pubs=0,conns=1,take=1,apubs=4,aids=2,abase=10,aqos=012,adup=2,refuse=xyz,rpubs=3,closure=ackall", 0, 90*time.Second))
			sts = append(sts, explore.RunBFS(c, "c11", "v=5,rm=0,srm=1,pubs=1,qos=1,conns=1,apubs=3,aids=2,abase=10,aqos=12,adup=2,refuse=xyz,rpubs=2,closure=ackall", 0, 60*time.Second))
			sts = append(sts, explore.RunBFS(c, "c11", "v=5,rm=0,srm=3,pubs=0,conns=1,apubs=4,aids=3,abase=10,aqos=12,adup=2,refuse=xy,rpubs=3,closure=ackall", 0, 60*time.Second))
			sts = append(sts, explore.RunBFS(c, "c11", "v=5,rm=3,rms=3.1,srm=2,pubs=4,qos=12,conns=2,take=1,clean=1,apubs=0,closure=ackall", 0, 90*time.Second))
			sts = append(sts, explore.RunBFS(c, "c11", "v=5,rm=0,rms=0.2.1,srm=2,pubs=3,qos=1,conns=2,take=1,apubs=0,closure=ackall", 0, 60*time.Second))
		}
		qosFold(c, sts, "messages_held_back_while_connected", "ackall_closures", "deferred_releases", "own_publish_sensitive_to_slot_kept_by_refused_publish", "own_publish_sensitive_to_slot_kept_by_dup_retransmission", "resumptions_with_smaller_receive_maximum_and_messages_in_flight")
	})
}
