package props

import (
	"fmt"
	"sort"
	"strings"

	"verif/explore"
	"verif/ref"
	"verif/world"
)

// H is the common harness of the history (E2) scenarios: named clients on one world,
// a trace, and violation collection. One op is applied at a time and the broker is run
// to quiescence under the deterministic default schedule.
type H struct {
	W     *world.World
	Cl    map[string]*world.Client // current connection of each named client
	All   []*world.Client
	Trace []string
	Viol  []explore.Violation
	Step  int
	last  bool // monitors only report on the last step of a replayed history
}

func newH(cfg world.Config) *H {
	return &H{W: world.New(nil, cfg), Cl: map[string]*world.Client{}}
}

func (h *H) logf(f string, a ...any) { h.Trace = append(h.Trace, fmt.Sprintf(f, a...)) }

// violate records a violation (only when the current step is the history's last one,
// earlier steps were judged when their own prefix was executed).
func (h *H) violate(key, f string, a ...any) {
	if !h.last {
		return
	}
	h.Viol = append(h.Viol, explore.Violation{Key: key, Msg: fmt.Sprintf(f, a...)})
}

// connect opens a connection for name and returns the packets received (CONNACK first).
func (h *H) connect(name string, p ref.Packet) []ref.Packet {
	cl := h.W.Connect(p)
	h.Cl[name] = cl
	h.All = append(h.All, cl)
	got := cl.Poll()
	h.logf("%s: -> %s", name, p)
	h.logf("%s: <- %v", name, got)
	return got
}

// do sends p from name, runs to quiescence and returns what name received.
func (h *H) do(name string, p ref.Packet) []ref.Packet {
	cl := h.Cl[name]
	got := cl.Do(p)
	h.logf("%s: -> %s", name, p)
	h.logf("%s: <- %v closed=%v", name, got, cl.Closed())
	return got
}

// poll collects what name received since the last poll.
func (h *H) poll(name string) []ref.Packet {
	got := h.Cl[name].Poll()
	if len(got) > 0 {
		h.logf("%s: <- %v", name, got)
	}
	return got
}

// finish checks runtime-level problems (panic, deadlock, decode errors of broker output
// are left to C23) and returns the result skeleton.
func (h *H) finish(key string, next []string) explore.HistResult {
	h.last = true
	for _, v := range runtimeViolations(h.W) {
		h.Viol = append(h.Viol, v)
	}
	r := explore.HistResult{Key: key, Next: next, Viol: h.Viol, Trace: h.Trace}
	h.W.End()
	return r
}

func pubsOf(pks []ref.Packet) []ref.Packet {
	var out []ref.Packet
	for _, p := range pks {
		if p.Type == ref.PUBLISH {
			out = append(out, p)
		}
	}
	return out
}

func sortedStrings(s []string) []string {
	out := append([]string{}, s...)
	sort.Strings(out)
	return out
}

func fields(op string) []string { return strings.Split(op, ":") }

// runHist applies ops one by one, marking the last step.
func runHist(h *H, hist []string, apply func(op string)) {
	for i, op := range hist {
		h.Step = i
		h.last = i == len(hist)-1
		h.logf("--- op %d: %s", i, op)
		apply(op)
	}
}
