package world

import (
	"fmt"

	mqtt "github.com/mochi-mqtt/server/v2"
	"github.com/mochi-mqtt/server/v2/packets"
)

// HookEvent is one recorded hook invocation.
type HookEvent struct {
	Name      string // OnPublishDropped, OnQosPublish, ...
	Client    string
	Topic     string
	Tag       string // payload (tests use short unique payloads)
	PID       uint16
	Type      byte
	Extra     string
	Bytes     []byte // OnPacketSent: the bytes reported as sent
	ClientPtr *mqtt.Client
}

//go:norace
func (e HookEvent) String() string {
	return fmt.Sprintf("%s(%s t=%q p=%q id=%d %s)", e.Name, e.Client, e.Topic, e.Tag, e.PID, e.Extra)
}

// RecHook records hook events and plays scripted roles.
type RecHook struct {
	mqtt.HookBase
	W          *World
	Name       string
	Auth       func(cl *mqtt.Client, pk packets.Packet) bool        // nil: allow
	ACL        func(cl *mqtt.Client, topic string, write bool) bool // nil: allow
	NoAuth     bool                                                 // does not provide OnConnectAuthenticate / OnACLCheck
	Publish    func(cl *mqtt.Client, pk packets.Packet) (packets.Packet, error)
	PacketRead func(cl *mqtt.Client, pk packets.Packet) (packets.Packet, error)
	Select     func(subs *mqtt.Subscribers, pk packets.Packet) *mqtt.Subscribers
	Quiet      bool // do not record
}

//go:norace
func (h *RecHook) ID() string {
	if h.Name != "" {
		return h.Name
	}
	return "rec"
}

//go:norace
func (h *RecHook) Provides(b byte) bool {
	switch b {
	case mqtt.OnConnectAuthenticate, mqtt.OnACLCheck:
		return !h.NoAuth
	case mqtt.OnPublish:
		return h.Publish != nil
	case mqtt.OnPacketRead:
		return h.PacketRead != nil
	case mqtt.OnSelectSubscribers:
		return h.Select != nil
	case mqtt.StoredClients, mqtt.StoredInflightMessages, mqtt.StoredRetainedMessages, mqtt.StoredSubscriptions, mqtt.StoredSysInfo,
		mqtt.OnPacketEncode, mqtt.OnSubscribe, mqtt.OnUnsubscribe, mqtt.OnWill, mqtt.OnAuthPacket, mqtt.OnConnect:
		return false
	}
	return true
}

//go:norace
func (h *RecHook) Init(config any) error { return nil }

//go:norace
func (h *RecHook) rec(e HookEvent) {
	if h.Quiet || h.W == nil {
		return
	}
	h.W.Events = append(h.W.Events, e)
}

//go:norace
func (h *RecHook) off() bool { return h.Quiet || h.W == nil }

//go:norace
func (h *RecHook) OnConnectAuthenticate(cl *mqtt.Client, pk packets.Packet) bool {
	if h.Auth == nil {
		return true
	}
	return h.Auth(cl, pk)
}

//go:norace
func (h *RecHook) OnACLCheck(cl *mqtt.Client, topic string, write bool) bool {
	if h.ACL == nil {
		return true
	}
	return h.ACL(cl, topic, write)
}

//go:norace
func (h *RecHook) OnPublish(cl *mqtt.Client, pk packets.Packet) (packets.Packet, error) {
	return h.Publish(cl, pk)
}

//go:norace
func (h *RecHook) OnPacketRead(cl *mqtt.Client, pk packets.Packet) (packets.Packet, error) {
	return h.PacketRead(cl, pk)
}

//go:norace
func (h *RecHook) OnSelectSubscribers(subs *mqtt.Subscribers, pk packets.Packet) *mqtt.Subscribers {
	return h.Select(subs, pk)
}

//go:norace
func ev(name string, cl *mqtt.Client, pk packets.Packet) HookEvent {
	id := ""
	if cl != nil {
		id = cl.ID
	}
	return HookEvent{Name: name, Client: id, Topic: pk.TopicName, Tag: string(pk.Payload), PID: pk.PacketID, Type: pk.FixedHeader.Type, ClientPtr: cl}
}

//go:norace
func (h *RecHook) OnSessionEstablish(cl *mqtt.Client, pk packets.Packet) {
	h.rec(ev("OnSessionEstablish", cl, pk))
}

//go:norace
func (h *RecHook) OnSessionEstablished(cl *mqtt.Client, pk packets.Packet) {
	h.rec(ev("OnSessionEstablished", cl, pk))
}

//go:norace
func (h *RecHook) OnDisconnect(cl *mqtt.Client, err error, expire bool) {
	if h.off() {
		return
	}
	e := ev("OnDisconnect", cl, packets.Packet{})
	e.Extra = fmt.Sprintf("expire=%v err=%v", expire, err)
	h.rec(e)
}

//go:norace
func (h *RecHook) OnPacketSent(cl *mqtt.Client, pk packets.Packet, b []byte) {
	if h.off() {
		return
	}
	e := ev("OnPacketSent", cl, pk)
	e.Bytes = append([]byte{}, b...)
	h.rec(e)
}

//go:norace
func (h *RecHook) OnPacketProcessed(cl *mqtt.Client, pk packets.Packet, err error) {
	if h.off() {
		return
	}
	e := ev("OnPacketProcessed", cl, pk)
	e.Extra = fmt.Sprint(err)
	h.rec(e)
}

//go:norace
func (h *RecHook) OnSubscribed(cl *mqtt.Client, pk packets.Packet, rc []byte) {
	if h.off() {
		return
	}
	e := ev("OnSubscribed", cl, pk)
	e.Extra = fmt.Sprintf("%x", rc)
	h.rec(e)
}

//go:norace
func (h *RecHook) OnUnsubscribed(cl *mqtt.Client, pk packets.Packet) {
	h.rec(ev("OnUnsubscribed", cl, pk))
}

//go:norace
func (h *RecHook) OnPublished(cl *mqtt.Client, pk packets.Packet) { h.rec(ev("OnPublished", cl, pk)) }

//go:norace
func (h *RecHook) OnPublishDropped(cl *mqtt.Client, pk packets.Packet) {
	h.rec(ev("OnPublishDropped", cl, pk))
}

//go:norace
func (h *RecHook) OnRetainMessage(cl *mqtt.Client, pk packets.Packet, r int64) {
	if h.off() {
		return
	}
	e := ev("OnRetainMessage", cl, pk)
	e.Extra = fmt.Sprint(r)
	h.rec(e)
}

//go:norace
func (h *RecHook) OnRetainPublished(cl *mqtt.Client, pk packets.Packet) {
	h.rec(ev("OnRetainPublished", cl, pk))
}

//go:norace
func (h *RecHook) OnQosPublish(cl *mqtt.Client, pk packets.Packet, sent int64, resends int) {
	h.rec(ev("OnQosPublish", cl, pk))
}

//go:norace
func (h *RecHook) OnQosComplete(cl *mqtt.Client, pk packets.Packet) {
	h.rec(ev("OnQosComplete", cl, pk))
}

//go:norace
func (h *RecHook) OnQosDropped(cl *mqtt.Client, pk packets.Packet) { h.rec(ev("OnQosDropped", cl, pk)) }

//go:norace
func (h *RecHook) OnPacketIDExhausted(cl *mqtt.Client, pk packets.Packet) {
	h.rec(ev("OnPacketIDExhausted", cl, pk))
}

//go:norace
func (h *RecHook) OnWillSent(cl *mqtt.Client, pk packets.Packet) { h.rec(ev("OnWillSent", cl, pk)) }

//go:norace
func (h *RecHook) OnClientExpired(cl *mqtt.Client) {
	h.rec(ev("OnClientExpired", cl, packets.Packet{}))
}

//go:norace
func (h *RecHook) OnRetainedExpired(topic string) {
	h.rec(HookEvent{Name: "OnRetainedExpired", Topic: topic})
}
