// Package world is the harness: in-memory connections and listeners whose every
// operation is a scheduling point, the recording hook, the client driver and the
// canonical state dumper.
package world

import (
	"errors"
	"fmt"
	"io"
	"net"
	"os"
	"time"

	"github.com/mochi-mqtt/server/v2/zzvrt"
)

type addr string

//go:norace
func (a addr) Network() string { return "mem" }

//go:norace
func (a addr) String() string { return string(a) }

type timeoutErr struct{}

//go:norace
func (timeoutErr) Error() string { return "i/o timeout" }

//go:norace
func (timeoutErr) Timeout() bool { return true }

//go:norace
func (timeoutErr) Temporary() bool { return true }

//go:norace
func (timeoutErr) Unwrap() error { return os.ErrDeadlineExceeded }

// Conn is the broker-side end of an in-memory connection. The driver plays the peer.
type Conn struct {
	ID         int
	X          *zzvrt.Exec
	in         []byte // bytes the peer sent, not yet read by the broker
	peerClosed bool   // peer closed its side: Read returns EOF once in is drained
	Closed     bool   // broker called Close
	Out        []byte // everything the broker wrote
	taken      int    // driver's read cursor into Out
	Writes     int    // number of Write calls
	WriteLens  []int
	deadline   time.Time
	TimedOut   bool // a Read failed with a deadline error
	// faults
	FailWriteAt     int  // 1-based index of the Write call that fails (0: never)
	ShortReads      bool // deliver one byte per Read
	ClosedAtOut     int  // len(Out) at the time of Close
	ReadsAfterClose int
	rname           string
}

//go:norace
func (c *Conn) readName() string {
	if c.rname == "" {
		c.rname = fmt.Sprintf("conn%d.Read", c.ID)
	}
	return c.rname
}

//go:norace
func (c *Conn) now() time.Time {
	return time.Unix(zzvrt.VirtualEpochUnix, 0).Add(time.Duration(c.X.NowMillis()) * time.Millisecond)
}

//go:norace
func (c *Conn) deadlinePassed() bool {
	return !c.deadline.IsZero() && !c.now().Before(c.deadline)
}

//go:norace
func (c *Conn) Read(p []byte) (int, error) {
	if zzvrt.Killed() {
		return 0, net.ErrClosed
	}
	zzvrt.Point("conn.Read")
	for {
		if c.Closed {
			return 0, net.ErrClosed
		}
		if len(c.in) > 0 {
			n := copy(p, c.in)
			if c.ShortReads && n > 1 {
				n = 1
			}
			c.in = c.in[n:]
			return n, nil
		}
		if c.peerClosed {
			return 0, io.EOF
		}
		if c.deadlinePassed() {
			c.TimedOut = true
			return 0, timeoutErr{}
		}
		zzvrt.Block(zzvrt.BlockIO, c.readName(), func() bool {
			return c.Closed || len(c.in) > 0 || c.peerClosed || c.deadlinePassed()
		})
	}
}

var errInjected = errors.New("injected write failure")

//go:norace
func (c *Conn) Write(p []byte) (int, error) {
	if zzvrt.Killed() {
		return 0, net.ErrClosed
	}
	zzvrt.Point("conn.Write")
	if c.Closed {
		return 0, net.ErrClosed
	}
	c.Writes++
	if c.FailWriteAt > 0 && c.Writes == c.FailWriteAt {
		return 0, errInjected
	}
	if c.peerClosed {
		// like a TCP peer that has gone away: accept silently (RST arrives later)
	}
	c.Out = append(c.Out, p...)
	c.WriteLens = append(c.WriteLens, len(p))
	return len(p), nil
}

//go:norace
func (c *Conn) Close() error {
	if c.Closed {
		return net.ErrClosed
	}
	if !zzvrt.Killed() {
		zzvrt.Point("conn.Close")
	}
	c.Closed = true
	c.ClosedAtOut = len(c.Out)
	return nil
}

//go:norace
func (c *Conn) LocalAddr() net.Addr { return addr("broker") }

//go:norace
func (c *Conn) RemoteAddr() net.Addr { return addr(fmt.Sprintf("peer%d", c.ID)) }

//go:norace
func (c *Conn) SetDeadline(t time.Time) error {
	c.deadline = t
	return nil
}

//go:norace
func (c *Conn) SetReadDeadline(t time.Time) error { c.deadline = t; return nil }

//go:norace
func (c *Conn) SetWriteDeadline(t time.Time) error { return nil }

// ---- driver side ----

// Send appends bytes from the peer.
//
//go:norace
func (c *Conn) Send(b []byte) { c.in = append(c.in, b...) }

// PeerClose makes the peer drop the connection.
//
//go:norace
func (c *Conn) PeerClose() { c.peerClosed = true }

// PeerClosed reports whether the peer has closed its side.
//
//go:norace
func (c *Conn) PeerClosed() bool { return c.peerClosed }

// Pending returns unread inbound byte count.
//
//go:norace
func (c *Conn) Pending() int { return len(c.in) }

// Take returns the bytes written by the broker since the last Take.
//
//go:norace
func (c *Conn) Take() []byte {
	b := c.Out[c.taken:]
	c.taken = len(c.Out)
	return b
}

// Deadline returns the deadline the broker last set.
//
//go:norace
func (c *Conn) Deadline() time.Time { return c.deadline }

// Listener is an in-memory net.Listener whose Accept is a scheduling point.
type Listener struct {
	X      *zzvrt.Exec
	queue  []*Conn
	Closed bool
}

//go:norace
func (l *Listener) Accept() (net.Conn, error) {
	if zzvrt.Killed() {
		return nil, net.ErrClosed
	}
	zzvrt.Point("listener.Accept")
	for {
		if l.Closed {
			return nil, net.ErrClosed
		}
		if len(l.queue) > 0 {
			c := l.queue[0]
			l.queue = l.queue[1:]
			return c, nil
		}
		zzvrt.Block(zzvrt.BlockIO, "listener.Accept", func() bool { return l.Closed || len(l.queue) > 0 })
	}
}

//go:norace
func (l *Listener) Close() error {
	if !zzvrt.Killed() {
		zzvrt.Point("listener.Close")
	}
	if l.Closed {
		return net.ErrClosed
	}
	l.Closed = true
	return nil
}

//go:norace
func (l *Listener) Addr() net.Addr { return addr("memlistener") }

// Dial queues a connection for Accept.
//
//go:norace
func (l *Listener) Dial(c *Conn) { l.queue = append(l.queue, c) }
