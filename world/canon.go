package world

import (
	"bufio"
	"bytes"
	"context"
	"fmt"
	"reflect"
	"sort"
	"strings"
	"unsafe"
)

// Canon returns a canonical dump of the broker state: every field reachable from *Server
// (unexported included) except an explicit exclusion list. Maps are sorted; pointers are
// replaced by first-visit indices; connections by (id, closed, pending bytes).
// Excluded (cannot influence future behaviour or are volatile by construction): loggers,
// hook list, listeners, tickers, done channel, ops back-pointers, sync primitives (free at
// quiescence), monotonic statistics counters (never read back by broker logic), wall-clock
// derived fields. A new field is included by default: over-fine is safe.
func Canon(root any, extraSkip ...string) string {
	d := &dumper{seen: map[unsafe.Pointer]int{}, skip: map[string]bool{}}
	for _, s := range defaultSkip {
		d.skip[s] = true
	}
	for _, s := range extraSkip {
		d.skip[s] = true
	}
	d.val(reflect.ValueOf(root), 0)
	return d.b.String()
}

var defaultSkip = []string{
	"Server.Log", "Server.hooks", "Server.Listeners", "Server.done", "Server.Options",
	"loop.sysTopics", "loop.clientExpiry", "loop.inflightExpiry", "loop.retainedExpiry", "loop.willDelaySend",
	"Client.ops", "ClientState.cancelOpen", "ClientState.endOnce",
	"Info.Version", "Info.Started", "Info.Time", "Info.Uptime", "Info.BytesReceived", "Info.BytesSent",
	"Info.MessagesReceived", "Info.MessagesSent", "Info.MessagesDropped", "Info.InflightDropped",
	"Info.PacketsReceived", "Info.PacketsSent", "Info.MemoryAlloc", "Info.Threads", "Info.ClientsMaximum",
	"Info.ClientsTotal", "Info.ClientsDisconnected",
	"InlineSubscription.Handler",
}

type dumper struct {
	b    strings.Builder
	seen map[unsafe.Pointer]int
	skip map[string]bool
}

var (
	ctxType  = reflect.TypeOf((*context.Context)(nil)).Elem()
	connPtr  = reflect.TypeOf(&Conn{})
	bufioRdr = reflect.TypeOf(&bufio.Reader{})
	bytesBuf = reflect.TypeOf(&bytes.Buffer{})
)

func clean(v reflect.Value) reflect.Value {
	if v.CanAddr() {
		return reflect.NewAt(v.Type(), unsafe.Pointer(v.UnsafeAddr())).Elem()
	}
	return v
}

func (d *dumper) val(v reflect.Value, depth int) {
	if depth > 40 {
		d.b.WriteString("<deep>")
		return
	}
	if !v.IsValid() {
		d.b.WriteString("nil")
		return
	}
	t := v.Type()
	if strings.Contains(t.PkgPath(), "zzvrt/vsync") {
		if t.Name() == "WaitGroup" {
			fmt.Fprintf(&d.b, "wg")
		}
		return
	}
	if strings.Contains(t.PkgPath(), "zzvrt/vatomic") {
		switch t.Name() {
		case "Bool", "Value", "Int32", "Int64", "Uint32":
			inner := clean(v).Field(0)
			inner = clean(inner)
			m := inner.Addr().MethodByName("Load")
			out := m.Call(nil)
			fmt.Fprintf(&d.b, "%v", out[0].Interface())
		}
		return
	}
	switch v.Kind() {
	case reflect.Ptr:
		if v.IsNil() {
			d.b.WriteString("nil")
			return
		}
		if t == connPtr {
			c := v.Interface().(*Conn)
			fmt.Fprintf(&d.b, "conn#%d(closed=%v in=%d)", c.ID, c.Closed, len(c.in))
			return
		}
		if t == bufioRdr {
			fmt.Fprintf(&d.b, "bufio(%d)", v.Interface().(*bufio.Reader).Buffered())
			return
		}
		if t == bytesBuf {
			fmt.Fprintf(&d.b, "buf(%x)", v.Interface().(*bytes.Buffer).Bytes())
			return
		}
		p := v.UnsafePointer()
		if i, ok := d.seen[p]; ok {
			fmt.Fprintf(&d.b, "^%d", i)
			return
		}
		d.seen[p] = len(d.seen)
		d.b.WriteString("&")
		d.val(v.Elem(), depth+1)
	case reflect.Interface:
		if v.IsNil() {
			d.b.WriteString("nil")
			return
		}
		if t.Implements(ctxType) || t == ctxType {
			ctx := v.Interface().(context.Context)
			fmt.Fprintf(&d.b, "ctx(done=%v)", ctx.Err() != nil)
			return
		}
		e := v.Elem()
		if e.Type() == connPtr {
			d.val(e, depth+1)
			return
		}
		if e.Kind() == reflect.Ptr || e.Kind() == reflect.Struct {
			fmt.Fprintf(&d.b, "(%s)", e.Type().String())
			if e.Kind() == reflect.Ptr {
				d.val(e, depth+1)
			}
			return
		}
		fmt.Fprintf(&d.b, "%v", e.Interface())
	case reflect.Struct:
		d.b.WriteString(t.Name() + "{")
		for i := 0; i < v.NumField(); i++ {
			f := t.Field(i)
			if d.skip[t.Name()+"."+f.Name] {
				continue
			}
			fv := clean(v.Field(i))
			if isZeroish(fv) {
				continue
			}
			d.b.WriteString(f.Name + ":")
			d.val(fv, depth+1)
			d.b.WriteString(" ")
		}
		d.b.WriteString("}")
	case reflect.Map:
		keys := v.MapKeys()
		type kv struct {
			s string
			k reflect.Value
		}
		ks := make([]kv, len(keys))
		for i, k := range keys {
			ks[i] = kv{fmt.Sprint(k.Interface()), k}
		}
		sort.Slice(ks, func(i, j int) bool { return ks[i].s < ks[j].s })
		d.b.WriteString("map[")
		for _, k := range ks {
			d.b.WriteString(k.s + ":")
			mv := v.MapIndex(k.k)
			if mv.Kind() == reflect.Struct {
				// make addressable so unexported fields can be read
				nv := reflect.New(mv.Type()).Elem()
				nv.Set(mv)
				mv = nv
			}
			d.val(mv, depth+1)
			d.b.WriteString(" ")
		}
		d.b.WriteString("]")
	case reflect.Slice, reflect.Array:
		if v.Kind() == reflect.Slice && t.Elem().Kind() == reflect.Uint8 {
			fmt.Fprintf(&d.b, "%q", v.Bytes())
			return
		}
		d.b.WriteString("[")
		for i := 0; i < v.Len(); i++ {
			d.val(clean(v.Index(i)), depth+1)
			d.b.WriteString(" ")
		}
		d.b.WriteString("]")
	case reflect.Chan:
		fmt.Fprintf(&d.b, "chan(%d)", v.Len())
	case reflect.Func:
		if v.IsNil() {
			d.b.WriteString("nil")
		} else {
			d.b.WriteString("func")
		}
	case reflect.String:
		fmt.Fprintf(&d.b, "%q", v.String())
	case reflect.Bool:
		fmt.Fprintf(&d.b, "%v", v.Bool())
	case reflect.Int, reflect.Int8, reflect.Int16, reflect.Int32, reflect.Int64:
		fmt.Fprintf(&d.b, "%d", v.Int())
	case reflect.Uint, reflect.Uint8, reflect.Uint16, reflect.Uint32, reflect.Uint64, reflect.Uintptr:
		fmt.Fprintf(&d.b, "%d", v.Uint())
	default:
		fmt.Fprintf(&d.b, "?%s", v.Kind())
	}
}

func isZeroish(v reflect.Value) bool {
	switch v.Kind() {
	case reflect.String:
		return v.Len() == 0
	case reflect.Bool:
		return !v.Bool()
	case reflect.Int, reflect.Int8, reflect.Int16, reflect.Int32, reflect.Int64:
		return v.Int() == 0
	case reflect.Uint, reflect.Uint8, reflect.Uint16, reflect.Uint32, reflect.Uint64:
		return v.Uint() == 0
	case reflect.Slice, reflect.Map:
		return v.Len() == 0
	case reflect.Ptr, reflect.Interface, reflect.Func:
		return v.IsNil()
	}
	return false
}

// State is the canonical dump of this world's broker.
func (w *World) State() string { return Canon(w.S) }
