package world

import (
	"fmt"
	"io"
	"log/slog"
	"unsafe"

	mqtt "github.com/mochi-mqtt/server/v2"
	"github.com/mochi-mqtt/server/v2/listeners"
	"github.com/mochi-mqtt/server/v2/system"
	"github.com/mochi-mqtt/server/v2/zzvrt"

	"verif/ref"
)

// Config describes the broker under test.
type Config struct {
	Caps        func(c *mqtt.Capabilities)
	Opts        func(o *mqtt.Options)
	NoHook      bool             // do not install the recording hook at all (no auth hook: every connect refused)
	Hook        func(h *RecHook) // customise the recording hook
	Extra       []mqtt.Hook      // further hooks, added after the recording hook
	ExtraCfg    []any
	Before      []mqtt.Hook // hooks added before the recording hook
	LoudAtomics bool        // statistics atomics are scheduling points too
	LoudPool    bool        // buffer pool operations are scheduling points
	MapSite     func(site string) bool
	EnvSite     func(site string) bool
	Exploring   bool // record/branch on choices from the start (default: only after Explore())
}

// World is one broker instance inside one controlled execution.
type World struct {
	X        *zzvrt.Exec
	S        *mqtt.Server
	Hook     *RecHook
	Conns    []*Conn
	Events   []HookEvent
	Cfg      Config
	Listener *Listener
	ended    bool
}

var discardLog = slog.New(slog.NewTextHandler(io.Discard, &slog.HandlerOptions{Level: slog.Level(100)}))

// quiet statistics counters: broker logic never branches on them (only ClientsConnected
// and ClientsMaximum are read back), so their updates commute with everything.
//
//go:norace
func quietRange(info *system.Info) func(p uintptr) bool {
	base := uintptr(unsafe.Pointer(info))
	end := base + unsafe.Sizeof(*info)
	cc := uintptr(unsafe.Pointer(&info.ClientsConnected))
	cm := uintptr(unsafe.Pointer(&info.ClientsMaximum))
	return func(p uintptr) bool {
		return p >= base && p < end && p != cc && p != cm
	}
}

// New begins an execution replaying prefix and builds the broker.
//
//go:norace
func New(prefix []int, cfg Config) *World {
	x := zzvrt.Begin(prefix)
	x.SetExploring(cfg.Exploring)
	x.MapSite, x.EnvSite = cfg.MapSite, cfg.EnvSite
	x.QuietPool = !cfg.LoudPool
	w := &World{X: x, Cfg: cfg}
	caps := mqtt.NewDefaultServerCapabilities()
	if cfg.Caps != nil {
		cfg.Caps(caps)
	}
	opts := &mqtt.Options{Capabilities: caps, Logger: discardLog}
	if cfg.Opts != nil {
		cfg.Opts(opts)
	}
	w.S = mqtt.New(opts)
	if !cfg.LoudAtomics {
		x.QuietAtomic = quietRange(w.S.Info)
	}
	for _, h := range cfg.Before {
		if err := w.S.AddHook(h, nil); err != nil {
			panic(err)
		}
	}
	if !cfg.NoHook {
		w.Hook = &RecHook{W: w}
		if cfg.Hook != nil {
			cfg.Hook(w.Hook)
		}
		if err := w.S.AddHook(w.Hook, nil); err != nil {
			panic(err)
		}
	}
	for i, h := range cfg.Extra {
		var c any
		if i < len(cfg.ExtraCfg) {
			c = cfg.ExtraCfg[i]
		}
		if err := w.S.AddHook(h, c); err != nil {
			panic(err)
		}
	}
	return w
}

// Explore switches choice recording on (the concurrent part of a scenario starts here).
//
//go:norace
func (w *World) Explore(on bool) { w.X.SetExploring(on) }

// Open creates a connection and spawns the broker's connection handler as a thread.
//
//go:norace
func (w *World) Open() *Conn {
	c := &Conn{ID: len(w.Conns), X: w.X}
	w.Conns = append(w.Conns, c)
	zzvrt.Go(fmt.Sprintf("conn%d", c.ID), func() {
		_ = w.S.EstablishConnection("t1", c)
	})
	return c
}

// Serve attaches an in-memory listener through the real listeners.Net and calls Serve.
//
//go:norace
func (w *World) Serve() *Listener {
	l := &Listener{X: w.X}
	w.Listener = l
	if err := w.S.AddListener(listeners.NewNet("t1", l)); err != nil {
		panic(err)
	}
	zzvrt.Go("serve", func() { _ = w.S.Serve() })
	return l
}

// Dial queues a new connection on the listener.
//
//go:norace
func (w *World) Dial() *Conn {
	c := &Conn{ID: len(w.Conns), X: w.X}
	w.Conns = append(w.Conns, c)
	w.Listener.Dial(c)
	return c
}

// Spawn runs fn as a scheduler thread.
//
//go:norace
func (w *World) Spawn(name string, fn func()) { zzvrt.Go(name, fn) }

// Run runs all threads until none is enabled.
//
//go:norace
func (w *World) Run() { w.X.Run() }

// Now returns the virtual unix time in seconds.
//
//go:norace
func (w *World) Now() int64 { return zzvrt.VirtualEpochUnix + w.X.NowMillis()/1000 }

// Tick advances the clock by ms and lets expired deadlines fire.
//
//go:norace
func (w *World) Tick(ms int64) {
	w.X.Advance(ms)
	w.Run()
}

// Housekeep runs the broker's periodic jobs once at the current virtual time, in the
// order of the event loop's select cases, as one thread.
//
//go:norace
func (w *World) Housekeep() {
	now := w.Now()
	zzvrt.Go("housekeeping", func() {
		w.S.VerifClearExpiredClients(now)
		w.S.VerifClearExpiredRetained(now)
		w.S.VerifSendDelayedLWT(now)
		w.S.VerifClearExpiredInflights(now)
	})
	w.Run()
}

// End tears the execution down.
//
//go:norace
func (w *World) End() {
	if !w.ended {
		w.ended = true
		w.X.End()
	}
}

// Problems returns runtime-level findings: panics, deadlock, lock misuse.
//
//go:norace
func (w *World) Problems() []string {
	var out []string
	for _, e := range w.X.Events {
		out = append(out, e.Kind+": "+e.Thread+": "+e.Detail)
	}
	if d, what := w.X.Deadlocked(); d {
		out = append(out, "deadlock: "+what)
	}
	if w.X.HorizonHit {
		out = append(out, "horizon")
	}
	return out
}

// ---------------- client driver ----------------

// Client is the harness's view of one MQTT client connection.
type Client struct {
	W    *World
	C    *Conn
	Ver  byte
	ID   string
	Recv []ref.Packet // every packet decoded so far
	Raw  [][]byte
	rest []byte
	Err  error // strict decoding error of broker output (C23)
	seen int
}

// Connect opens a connection, sends CONNECT and runs to quiescence.
//
//go:norace
func (w *World) Connect(p ref.Packet) *Client {
	cl := w.Start(p)
	w.Run()
	return cl
}

// Start opens a connection and queues CONNECT without running.
//
//go:norace
func (w *World) Start(p ref.Packet) *Client {
	c := w.Open()
	cl := &Client{W: w, C: c, Ver: p.ProtoVer, ID: p.ClientID}
	c.Send(ref.Encode(p, p.ProtoVer, ref.EncOpts{}))
	return cl
}

// ConnectPacket builds a plain CONNECT.
//
//go:norace
func ConnectPacket(id string, ver byte, clean bool, props ...ref.Prop) ref.Packet {
	name := "MQTT"
	if ver == 3 {
		name = "MQIsdp"
	}
	return ref.Packet{Type: ref.CONNECT, ProtoName: name, ProtoVer: ver, CleanStart: clean, ClientID: id, KeepAlive: 0, Props: props}
}

// Send queues a packet from this client (no run).
//
//go:norace
func (cl *Client) Send(p ref.Packet) { cl.C.Send(ref.Encode(p, cl.Ver, ref.EncOpts{})) }

// SendRaw queues raw bytes.
//
//go:norace
func (cl *Client) SendRaw(b []byte) { cl.C.Send(b) }

// Do sends a packet and runs to quiescence, returning newly received packets.
//
//go:norace
func (cl *Client) Do(p ref.Packet) []ref.Packet {
	cl.Send(p)
	cl.W.Run()
	return cl.Poll()
}

// Poll decodes whatever the broker wrote since the last Poll.
//
//go:norace
func (cl *Client) Poll() []ref.Packet {
	b := cl.C.Take()
	if cl.Err != nil {
		return nil
	}
	cl.rest = append(cl.rest, b...)
	pks, raw, rest, err := ref.DecodeStream(cl.rest, cl.Ver)
	cl.rest = rest
	cl.Recv = append(cl.Recv, pks...)
	cl.Raw = append(cl.Raw, raw...)
	if err != nil {
		cl.Err = err
	}
	return pks
}

// Leftover returns the number of undecoded bytes (an incomplete packet) seen so far.
//
//go:norace
func (cl *Client) Leftover() int { return len(cl.rest) }

// Drop closes the connection from the peer side and runs.
//
//go:norace
func (cl *Client) Drop() {
	cl.C.PeerClose()
	cl.W.Run()
}

// Closed reports whether the broker closed the connection.
//
//go:norace
func (cl *Client) Closed() bool { return cl.C.Closed }
