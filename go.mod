module verif

go 1.23

require (
	github.com/gorilla/websocket v1.5.0
	github.com/mochi-mqtt/server/v2 v2.0.0
)

require (
	github.com/rs/xid v1.4.0 // indirect
	gopkg.in/yaml.v3 v3.0.1 // indirect
)

replace github.com/mochi-mqtt/server/v2 => ./.build/mochi
