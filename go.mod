module verif

go 1.23

require (
	github.com/alicebob/miniredis/v2 v2.23.0
	github.com/cockroachdb/pebble v1.1.0
	github.com/dgraph-io/badger/v4 v4.2.0
	github.com/go-redis/redis/v8 v8.11.5
	github.com/gorilla/websocket v1.5.0
	github.com/mochi-mqtt/server/v2 v2.0.0
	go.etcd.io/bbolt v1.3.5
)

require (
	github.com/DataDog/zstd v1.4.5 // indirect
	github.com/alicebob/gopher-json v0.0.0-20200520072559-a9ecdc9d1d3a // indirect
	github.com/beorn7/perks v1.0.1 // indirect
	github.com/cespare/xxhash/v2 v2.2.0 // indirect
	github.com/cockroachdb/errors v1.11.1 // indirect
	github.com/cockroachdb/logtags v0.0.0-20230118201751-21c54148d20b // indirect
	github.com/cockroachdb/redact v1.1.5 // indirect
	github.com/cockroachdb/tokenbucket v0.0.0-20230807174530-cc333fc44b06 // indirect
	github.com/dgraph-io/ristretto v0.1.1 // indirect
	github.com/dgryski/go-rendezvous v0.0.0-20200823014737-9f7001d12a5f // indirect
	github.com/dustin/go-humanize v1.0.0 // indirect
	github.com/getsentry/sentry-go v0.18.0 // indirect
	github.com/gogo/protobuf v1.3.2 // indirect
	github.com/golang/glog v1.2.4 // indirect
	github.com/golang/groupcache v0.0.0-20200121045136-8c9f03a8e57e // indirect
	github.com/golang/protobuf v1.5.2 // indirect
	github.com/golang/snappy v0.0.4 // indirect
	github.com/google/flatbuffers v1.12.1 // indirect
	github.com/klauspost/compress v1.15.15 // indirect
	github.com/kr/pretty v0.3.1 // indirect
	github.com/kr/text v0.2.0 // indirect
	github.com/matttproud/golang_protobuf_extensions v1.0.2-0.20181231171920-c182affec369 // indirect
	github.com/pkg/errors v0.9.1 // indirect
	github.com/prometheus/client_golang v1.12.0 // indirect
	github.com/prometheus/client_model v0.2.1-0.20210607210712-147c58e9608a // indirect
	github.com/prometheus/common v0.32.1 // indirect
	github.com/prometheus/procfs v0.7.3 // indirect
	github.com/rogpeppe/go-internal v1.9.0 // indirect
	github.com/rs/xid v1.4.0 // indirect
	github.com/yuin/gopher-lua v0.0.0-20210529063254-f4c35e4016d9 // indirect
	go.opencensus.io v0.22.5 // indirect
	golang.org/x/exp v0.0.0-20230626212559-97b1e661b5df // indirect
	golang.org/x/net v0.33.0 // indirect
	golang.org/x/sys v0.28.0 // indirect
	golang.org/x/text v0.21.0 // indirect
	google.golang.org/protobuf v1.33.0 // indirect
	gopkg.in/yaml.v3 v3.0.1 // indirect
)

replace github.com/mochi-mqtt/server/v2 => ./.build/mochi
